package world

import (
	"fmt"
	"math/big"
	"runtime/debug"
	"sort"
	"strings"
	"time"

	"github.com/atlassian/escalator/pkg/metrics"
	"github.com/prometheus/client_golang/prometheus"
	dto "github.com/prometheus/client_model/go"
	v1 "k8s.io/api/core/v1"

	"verifharness/ref"
	"verifharness/sim"
)

// ASGSnap is the cloud state of one group before a scan.
type ASGSnap struct {
	Name      string
	Min, Max  int64
	Desired   int64
	Instances []string
}

// GroupView is what a scan sees of one group, computed by the reference pieces from the
// view served to that scan.
type GroupView struct {
	Nodes     []*v1.Node // label match, view order
	Pods      []*v1.Pod  // reference attribution (Yes)
	MaybePods []*v1.Pod  // attribution undecided by the property (default group only)
	Cordoned  []*v1.Node
	Force     []*v1.Node
	Tainted   []*v1.Node
	Untainted []*v1.Node
	ReqCPU    *big.Int
	ReqMem    *big.Int
	CapCPU    *big.Int
	CapMem    *big.Int
	podsOn    map[string][]*v1.Pod
}

// PodsOn returns the group's pods bound to the node (DaemonSet pods are never group pods).
func (gv *GroupView) PodsOn(node string) []*v1.Pod { return gv.podsOn[node] }

// Node finds a group node of the view by name.
func (gv *GroupView) Node(name string) *v1.Node {
	for _, n := range gv.Nodes {
		if n.Name == name {
			return n
		}
	}
	return nil
}

// GroupRec is what happened while one group was processed in a scan.
type GroupRec struct {
	G                  int
	Processed          bool // a GetNodeGroup marker for this group was seen
	Seg                []sim.Entry
	GV                 *GroupView
	EffMin             int
	EffMax             int
	Dry                bool
	CachedSize         v1.ResourceList // "last observed node size" the controller holds when this scan decides (nil: none)
	PrevIncreaseFailed bool            // the previous scan's cloud scale-up of this group failed (no lock may result)
	FleetFails         int             // consecutive failed fleet provisionings of this group on the current provider object, this scan included
	Locked             bool            // lock model says locked when processing started
	LockT0             time.Time       // valid when Locked
	Start              time.Time       // virtual time of the marker

	// derived from Seg
	TaintPut      []string // PUT that added the escalator taint, accepted
	TaintNoop     []string // GET showed the taint already there (success without PUT)
	UntaintPut    []string // PUT that removed the escalator taint, accepted
	UntaintNoop   []string // GET showed no taint to remove (success without PUT)
	Failed        map[string]bool
	TermOK        []string // instance ids accepted by TerminateInstanceInAutoScalingGroup
	TermFail      int
	Deleted       []string // node names deleted
	DeleteFail    int
	OtherPuts     []string    // accepted updates that neither added nor removed the escalator taint
	Increase      []sim.Entry // SetDesiredCapacity / CreateFleet entries (any outcome)
	IncreaseCalls []sim.Entry // NodeGroup.IncreaseSize calls with outcome
	DeleteCalls   []sim.Entry // NodeGroup.DeleteNodes calls with outcome
	ScaleUpOK     bool        // a cloud scale-up was accepted in this segment
	ScaleUpAt     time.Time
	K8sWrites     int
	AWSWrites     int
	ListFault     bool

	Gauge map[string]float64
}

// Tainted returns the nodes that count as tainted in this scan.
func (r *GroupRec) TaintedNow() []string {
	return append(append([]string{}, r.TaintPut...), r.TaintNoop...)
}

// UntaintedNow returns the nodes that count as untainted in this scan.
func (r *GroupRec) UntaintedNow() []string {
	return append(append([]string{}, r.UntaintPut...), r.UntaintNoop...)
}

// ScanRecord is everything the monitors may look at for one scan.
type ScanRecord struct {
	Index         int
	Epoch         int
	Restarted     bool // first scan of a controller incarnation
	T0, T1        time.Time
	Synced        bool
	MidScanChange bool // somebody else changed a cloud group between the scan's refresh and its writes
	Hung          bool // RunOnce never returned: every goroutine of the scan was blocked for good
	View          *sim.View
	ViewAfter     *sim.View // the cache content when the scan returned (escalator must not have touched it)
	API           map[string]*v1.Node
	ASGs          map[string]ASGSnap
	Entries       []sim.Entry
	Prelude       []sim.Entry // entries before the first group marker (refresh, rebuilds)
	Groups        []*GroupRec
	Err           error
	Panic         any
	Stack         string
	FatalExit     bool // logrus Fatal (documented exit after 3 fleet failures)
	BuildErr      error
	FaultsArmed   []sim.Fault
	FaultHits     int
	RealDur       time.Duration
}

// Faulty reports whether any injected failure was hit in the scan.
func (s *ScanRecord) Faulty() bool { return s.FaultHits > 0 }

// BuildGroupView computes the reference view of group g from a cache view.
func (w *World) BuildGroupView(view *sim.View, g int) *GroupView {
	o := &w.Cfg.Groups[g].Opts
	gv := &GroupView{podsOn: map[string][]*v1.Pod{}}
	for _, n := range view.Nodes {
		if !ref.NodeInGroup(n, o.LabelKey, o.LabelValue) {
			continue
		}
		gv.Nodes = append(gv.Nodes, n)
		switch ref.Classify(n) {
		case ref.Cordoned:
			gv.Cordoned = append(gv.Cordoned, n)
		case ref.ForceTainted:
			gv.Force = append(gv.Force, n)
		case ref.Tainted:
			gv.Tainted = append(gv.Tainted, n)
		default:
			gv.Untainted = append(gv.Untainted, n)
		}
	}
	for _, p := range view.Pods {
		switch w.PodInGroup(p, g) {
		case ref.Yes:
			gv.Pods = append(gv.Pods, p)
			gv.podsOn[p.Spec.NodeName] = append(gv.podsOn[p.Spec.NodeName], p)
		case ref.Either:
			gv.MaybePods = append(gv.MaybePods, p)
		}
	}
	gv.ReqCPU, gv.ReqMem = ref.Requests(gv.Pods)
	gv.CapCPU, gv.CapMem = ref.Capacity(gv.Untainted)
	return gv
}

var gaugeVecs = map[string]*prometheus.GaugeVec{
	"cpu_capacity": metrics.NodeGroupCPUCapacity,
	"mem_capacity": metrics.NodeGroupMemCapacity,
	"cpu_request":  metrics.NodeGroupCPURequest,
	"mem_request":  metrics.NodeGroupMemRequest,
	"scale_delta":  metrics.NodeGroupScaleDelta,
	"cpu_percent":  metrics.NodeGroupsCPUPercent,
	"mem_percent":  metrics.NodeGroupsMemPercent,
	"untainted":    metrics.NodeGroupNodesUntainted,
	"tainted":      metrics.NodeGroupNodesTainted,
	"cordoned":     metrics.NodeGroupNodesCordoned,
	"force":        metrics.NodeGroupNodesForceTainted,
	"nodes":        metrics.NodeGroupNodes,
	"pods":         metrics.NodeGroupPods,
}

// GaugeUnset is written into every gauge before a scan so that "not set by this scan" is visible.
const GaugeUnset = -12345.5

func readGauge(v *prometheus.GaugeVec, label string) float64 {
	var m dto.Metric
	if err := v.WithLabelValues(label).Write(&m); err != nil || m.Gauge == nil {
		return GaugeUnset
	}
	return m.Gauge.GetValue()
}

// Scan runs one real RunOnce over the world and records what happened.
func (w *World) Scan(sync bool, order []string) *ScanRecord {
	rec := &ScanRecord{Index: w.Scans, Synced: sync}
	w.Scans++
	restarted := w.Ctrl == nil
	mark0 := w.J.Mark()
	if err := w.EnsureController(); err != nil {
		rec.BuildErr = err
		rec.Entries = w.J.Since(mark0)
		rec.FaultHits = w.J.Disarm()
		w.Last = rec
		w.recs = append(w.recs, rec)
		return rec
	}
	rec.Restarted = restarted
	rec.Epoch = w.Epoch
	if sync {
		w.V.Sync(w.K, order, w.Pods)
	}
	rec.View = w.V.Clone()
	rec.API = map[string]*v1.Node{}
	for k, n := range w.K.Nodes {
		rec.API[k] = n.DeepCopy()
	}
	rec.ASGs = map[string]ASGSnap{}
	for name, g := range w.A.ASGs {
		rec.ASGs[name] = ASGSnap{Name: name, Min: g.Min, Max: g.Max, Desired: g.Desired, Instances: append([]string{}, g.Instances...)}
	}
	for _, f := range w.J.Faults {
		rec.FaultsArmed = append(rec.FaultsArmed, *f)
	}
	rec.MidScanChange = len(w.A.BumpAfterDescribe) > 0
	for _, gs := range w.Cfg.Groups {
		for _, v := range gaugeVecs {
			v.WithLabelValues(gs.Opts.Name).Set(GaugeUnset)
		}
	}
	mark := w.J.Mark()
	rec.T0 = time.Now()
	realStart := realNow()
	// RunOnce runs in a goroutine of its own so that a scan that wedges (every goroutine of it
	// blocked for good) is noticed: virtual time only jumps to the watchdog's deadline when nothing
	// in the bubble can run any more, so a scan that is merely slow never trips it
	done := make(chan struct{})
	ctrl := w.Ctrl
	go func() {
		defer close(done)
		defer func() {
			if r := recover(); r != nil {
				if _, isExit := r.(exitSentinel); isExit {
					rec.FatalExit = true
					return
				}
				rec.Panic = r
				rec.Stack = string(debug.Stack())
			}
		}()
		rec.Err = ctrl.RunOnce()
	}()
	select {
	case <-done:
	case <-time.After(30 * 24 * time.Hour):
		rec.Hung = true
	}
	rec.RealDur = realSince(realStart)
	rec.T1 = time.Now()
	rec.Entries = w.J.Since(mark)
	rec.FaultHits = w.J.Disarm()
	w.FailBuild = 0
	w.analyse(rec)
	if rec.FatalExit || rec.Panic != nil || rec.Hung {
		// the process would be gone (or has to be killed): the next scan starts a new controller
		w.Ctrl = nil
	}
	if rec.Err != nil {
		// RunForever returns any RunOnce error and main() exits on it: the process is gone
		// and the next scan starts a new controller
		w.Ctrl = nil
	}
	w.Last = rec
	rec.ViewAfter = w.V.Clone()
	w.recs = append(w.recs, rec)
	return rec
}

// DrainRecs returns the records of all scans since the last call (a composite action may
// contain several scans) and forgets them.
func (w *World) DrainRecs() []*ScanRecord {
	out := w.recs
	w.recs = nil
	return out
}

// analyse segments the journal by group and derives the per-group facts.
func (w *World) analyse(rec *ScanRecord) {
	ng := len(w.Cfg.Groups)
	rec.Groups = make([]*GroupRec, ng)
	for g := 0; g < ng; g++ {
		gr := &GroupRec{G: g, Dry: w.Cfg.IsDry(g), Failed: map[string]bool{}, Gauge: map[string]float64{}}
		gr.GV = w.BuildGroupView(rec.View, g)
		o := &w.Cfg.Groups[g].Opts
		gr.EffMin, gr.EffMax = o.MinNodes, o.MaxNodes
		if o.MinNodes == 0 && o.MaxNodes == 0 {
			if s, ok := rec.ASGs[o.CloudProviderGroupName]; ok {
				gr.EffMin, gr.EffMax = int(s.Min), int(s.Max)
			}
		}
		if t0, ok := w.LockT0[g]; ok {
			gr.LockT0 = t0
		}
		for name, v := range gaugeVecs {
			gr.Gauge[name] = readGauge(v, o.Name)
		}
		rec.Groups[g] = gr
	}
	cur := -1
	listed := false // the current segment has seen its pod list (every processed group lists its pods exactly once, first thing)
	open := func(g int, at time.Time) {
		cur, listed = g, false
		gr := rec.Groups[g]
		gr.Processed = true
		gr.Start = at
		if t0, ok := w.LockT0[g]; ok && at.Sub(t0) < Dur(w.Cfg.Groups[g].Opts.ScaleUpCoolDownPeriod) {
			gr.Locked = true
		}
	}
	for _, e := range rec.Entries {
		if e.Kind == sim.MGetNodeGroup {
			// RunOnce walks the groups in configuration order; a look-up of a later group's cloud
			// group starts that group's segment
			if g := w.GroupOfASG(e.ASG); g > cur {
				open(g, e.T)
			}
		}
		if e.Kind == sim.KListPods {
			// ... and so does a pod list that is not the current segment's own: the segmentation must
			// not depend on escalator looking its cloud group up at that point
			if (cur < 0 || listed) && cur+1 < ng {
				open(cur+1, e.T)
			}
			listed = true
		}
		if cur < 0 {
			rec.Prelude = append(rec.Prelude, e)
			continue
		}
		rec.Groups[cur].Seg = append(rec.Groups[cur].Seg, e)
	}
	for _, gr := range rec.Groups {
		w.derive(rec, gr)
		// escalator remembers the allocatable of the first listed node of every scan that lists
		// nodes (before any guard); scans that list none keep the earlier value
		if gr.Processed && !gr.ListFault {
			if len(gr.GV.Nodes) > 0 {
				if w.LastSize == nil {
					w.LastSize = map[int]v1.ResourceList{}
				}
				w.LastSize[gr.G] = gr.GV.Nodes[0].Status.Allocatable.DeepCopy()
			}
			gr.CachedSize = w.LastSize[gr.G]
		}
		if at, ok := w.FailedIncrease[gr.G]; ok && at == rec.Index-1 {
			gr.PrevIncreaseFailed = true
		}
		// consecutive failed fleet provisionings (instances acquired, then cleaned up) per group and
		// provider object: a new provider (controller start, rebuild after a failed refresh) starts at 0
		if w.FleetFails == nil || (gr.G == 0 && (rec.Restarted || rebuilt(rec))) {
			w.FleetFails = map[int]int{}
		}
		acquired := false
		for _, e := range gr.Seg {
			if e.Kind == sim.ACreateFleet && e.OK() && len(e.Returned) > 0 {
				acquired = true
			}
			if e.Kind == sim.MIncreaseSize && w.Cfg.IsFleet(gr.G) {
				if e.OK() {
					w.FleetFails[gr.G] = 0
				} else if acquired {
					w.FleetFails[gr.G]++
				}
				acquired = false
			}
		}
		if rec.FatalExit && acquired { // the exit happened inside the clean-up: the marker was never written
			w.FleetFails[gr.G]++
		}
		gr.FleetFails = w.FleetFails[gr.G]
		if gr.ScaleUpOK {
			w.LockT0[gr.G] = gr.ScaleUpAt
			delete(w.FailedIncrease, gr.G)
		} else {
			for _, e := range gr.IncreaseCalls {
				if !e.OK() {
					if w.FailedIncrease == nil {
						w.FailedIncrease = map[int]int{}
					}
					w.FailedIncrease[gr.G] = rec.Index
				}
			}
		}
	}
}

// rebuilt reports whether the provider was rebuilt at the start of the scan (failed refresh).
func rebuilt(rec *ScanRecord) bool {
	for _, e := range rec.Prelude {
		if e.Kind == sim.MBuild {
			return true
		}
	}
	return false
}

func hasEsc(n *v1.Node) bool {
	if n == nil {
		return false
	}
	_, ok := ref.HasTaint(n, ref.TaintKey)
	return ok
}

// derive computes the facts of one group's segment.
func (w *World) derive(rec *ScanRecord, gr *GroupRec) {
	lastGet := map[string]*sim.Entry{}
	for i := range gr.Seg {
		e := &gr.Seg[i]
		if e.IsK8sWrite() {
			gr.K8sWrites++
		}
		if e.IsAWSWrite() {
			gr.AWSWrites++
		}
		switch e.Kind {
		case sim.KListNodes, sim.KListPods:
			if !e.OK() {
				gr.ListFault = true
			}
		case sim.KGet:
			lastGet[e.Node] = e
			if !e.OK() && !strings.HasPrefix(e.Err, sim.CallerPrefix) { // a request escalator itself abandoned excuses nothing
				gr.Failed[e.Node] = true
			}
		case sim.KUpdate:
			if !e.OK() {
				if !strings.HasPrefix(e.Err, sim.CallerPrefix) {
					gr.Failed[e.Node] = true
				}
				break
			}
			before, after := hasEsc(e.Before), hasEsc(e.Sent)
			switch {
			case !before && after:
				gr.TaintPut = append(gr.TaintPut, e.Node)
			case before && !after:
				gr.UntaintPut = append(gr.UntaintPut, e.Node)
			default:
				gr.OtherPuts = append(gr.OtherPuts, e.Node)
			}
			delete(lastGet, e.Node)
		case sim.KDelete:
			if e.OK() {
				gr.Deleted = append(gr.Deleted, e.Node)
			} else {
				gr.DeleteFail++
			}
		case sim.ATerminateInASG:
			if e.OK() {
				gr.TermOK = append(gr.TermOK, e.IDs...)
			} else {
				gr.TermFail++
			}
		case sim.ASetDesired, sim.ACreateFleet:
			gr.Increase = append(gr.Increase, *e)
			if e.Kind == sim.ASetDesired && e.OK() && e.Value > e.PreDesired && !gr.ScaleUpOK {
				// the cloud accepted a raise of the desired capacity: the cool-down starts here, whatever
				// IncreaseSize goes on to report (the marker below, written when it returns, refines the time)
				gr.ScaleUpOK, gr.ScaleUpAt = true, e.T
			}
		case sim.MIncreaseSize:
			gr.IncreaseCalls = append(gr.IncreaseCalls, *e)
			if e.OK() {
				gr.ScaleUpOK, gr.ScaleUpAt = true, e.T
			}
		case sim.MDeleteNodes:
			gr.DeleteCalls = append(gr.DeleteCalls, *e)
		}
	}
	// a GET that was not followed by a PUT on the same node: escalator found nothing to do
	// (taint already present when tainting / already absent when untainting)
	var names []string
	for n := range lastGet {
		names = append(names, n)
	}
	sort.Strings(names)
	for _, n := range names {
		e := lastGet[n]
		if !e.OK() {
			continue
		}
		v := rec.View.NodeByName(n)
		if v == nil {
			continue
		}
		viewTainted := hasEsc(v)
		apiTainted := hasEsc(e.Before)
		switch {
		case !viewTainted && apiTainted:
			gr.TaintNoop = append(gr.TaintNoop, n)
		case viewTainted && !apiTainted:
			gr.UntaintNoop = append(gr.UntaintNoop, n)
		}
	}
}

// NodeForInstance finds the view node backed by the instance id.
func (rec *ScanRecord) NodeForInstance(id string) *v1.Node {
	for _, n := range rec.View.Nodes {
		if strings.HasSuffix(n.Spec.ProviderID, "/"+id) {
			return n
		}
	}
	return nil
}

// Describe renders a scan for a replay dump.
func (rec *ScanRecord) Describe(w *World) string {
	var b strings.Builder
	fmt.Fprintf(&b, "scan #%d epoch=%d restarted=%v synced=%v t0=%s err=%v panic=%v fatalExit=%v faultHits=%d\n", rec.Index, rec.Epoch, rec.Restarted, rec.Synced,
		rec.T0.UTC().Format(time.RFC3339Nano), errText(rec.Err), rec.Panic, rec.FatalExit, rec.FaultHits)
	if rec.View == nil {
		fmt.Fprintf(&b, "  controller build failed: %v\n", rec.BuildErr)
		return b.String()
	}
	for g, gr := range rec.Groups {
		o := w.Cfg.Groups[g].Opts
		s := rec.ASGs[o.CloudProviderGroupName]
		fmt.Fprintf(&b, " group %d %q dry=%v min/max=%d/%d(eff %d/%d) thr=%d/%d/%d rates=%d/%d soft=%s hard=%s cd=%s fleet=%v asg(min=%d desired=%d max=%d inst=%d) locked=%v processed=%v\n",
			g, o.Name, gr.Dry, o.MinNodes, o.MaxNodes, gr.EffMin, gr.EffMax, o.TaintLowerCapacityThresholdPercent, o.TaintUpperCapacityThresholdPercent, o.ScaleUpThresholdPercent,
			o.SlowNodeRemovalRate, o.FastNodeRemovalRate, o.SoftDeleteGracePeriod, o.HardDeleteGracePeriod, o.ScaleUpCoolDownPeriod, o.AWS.LaunchTemplateID != "",
			s.Min, s.Desired, s.Max, len(s.Instances), gr.Locked, gr.Processed)
		fmt.Fprintf(&b, "   view: nodes=%d untainted=%d tainted=%d force=%d cordoned=%d pods=%d req=%v/%v cap=%v/%v\n", len(gr.GV.Nodes), len(gr.GV.Untainted), len(gr.GV.Tainted),
			len(gr.GV.Force), len(gr.GV.Cordoned), len(gr.GV.Pods), gr.GV.ReqCPU, gr.GV.ReqMem, gr.GV.CapCPU, gr.GV.CapMem)
		for _, n := range gr.GV.Nodes {
			api := rec.API[n.Name]
			apiS := "absent"
			if api != nil {
				apiS = fmt.Sprintf("unsched=%v taints=%v", api.Spec.Unschedulable, briefTaints(api))
			}
			fmt.Fprintf(&b, "     %s created=%s unsched=%v taints=%v nodelete=%q pods=%d prov=%s | api: %s\n", n.Name, n.CreationTimestamp.UTC().Format("15:04:05"), n.Spec.Unschedulable,
				briefTaints(n), n.Annotations[ref.NoDeleteKey], len(gr.GV.PodsOn(n.Name)), n.Spec.ProviderID, apiS)
		}
		polls := 0
		for i, e := range gr.Seg {
			if e.Kind == sim.AStatusPages && i+1 < len(gr.Seg) && gr.Seg[i+1].Kind == sim.AStatusPages {
				polls++
				continue
			}
			if polls > 0 {
				fmt.Fprintf(&b, "     ... %d more readiness polls ...\n", polls)
				polls = 0
			}
			fmt.Fprintf(&b, "     %s\n", e.String())
		}
	}
	if len(rec.Prelude) > 0 {
		fmt.Fprintf(&b, " prelude:\n")
		for _, e := range rec.Prelude {
			fmt.Fprintf(&b, "     %s\n", e.String())
		}
	}
	return b.String()
}

func briefTaints(n *v1.Node) []string {
	var out []string
	for _, t := range n.Spec.Taints {
		out = append(out, fmt.Sprintf("%s=%s:%s", t.Key, t.Value, t.Effect))
	}
	return out
}

// SituationKey is a canonical digest of what a scan saw and did, per group: configuration
// numbers, every node's class / taint-age bucket / occupancy / protection, exact utilisation
// totals, lock state and the actions taken. Two scans with the same key are the same case
// as far as any monitor can tell; it is used to count distinct non-trivial cases.
func (rec *ScanRecord) SituationKey(w *World) string {
	var b strings.Builder
	fmt.Fprintf(&b, "r=%v|s=%v|f=%d;", rec.Restarted, rec.Synced, rec.FaultHits)
	for g, gr := range rec.Groups {
		o := &w.Cfg.Groups[g].Opts
		fmt.Fprintf(&b, "g%d:%v/%d/%d/%d/%d/%d/%d/%d/%s/%s/%s/L%v/P%v;", g, gr.Dry, gr.EffMin, gr.EffMax, o.TaintLowerCapacityThresholdPercent, o.TaintUpperCapacityThresholdPercent,
			o.ScaleUpThresholdPercent, o.SlowNodeRemovalRate, o.FastNodeRemovalRate, o.SoftDeleteGracePeriod, o.HardDeleteGracePeriod, o.ScaleUpCoolDownPeriod, gr.Locked, gr.Processed)
		var nodes []string
		for _, n := range gr.GV.Nodes {
			age := "-"
			if ts, ok := ref.TaintTime(n); ok {
				d := gr.Start.Sub(ts)
				soft, hard := Dur(o.SoftDeleteGracePeriod), Dur(o.HardDeleteGracePeriod)
				switch {
				case d < 0:
					age = "f"
				case d < soft:
					age = "y"
				case d == soft:
					age = "s="
				case d < hard:
					age = "m"
				case d == hard:
					age = "h="
				default:
					age = "o"
				}
			} else if _, has := ref.HasTaint(n, ref.TaintKey); has {
				age = "?"
			}
			nodes = append(nodes, fmt.Sprintf("%s%s%d%v", ref.Classify(n).String()[:1], age, minInt(len(gr.GV.PodsOn(n.Name)), 2), ref.NoDelete(n)))
		}
		sort.Strings(nodes)
		fmt.Fprintf(&b, "%v|%v/%v/%v/%v|", nodes, gr.GV.ReqCPU, gr.GV.CapCPU, gr.GV.ReqMem, gr.GV.CapMem)
		fmt.Fprintf(&b, "t%d,u%d,x%d,d%d,i%d,F%d;", len(gr.TaintedNow()), len(gr.UntaintedNow()), len(gr.TermOK), len(gr.Deleted), len(gr.Increase), len(gr.Failed))
	}
	return b.String()
}
