package world

import (
	"time"

	v1 "k8s.io/api/core/v1"
	"k8s.io/apimachinery/pkg/api/resource"
	metav1 "k8s.io/apimachinery/pkg/apis/meta/v1"
)

// OddNodeKinds are the malformed node shapes of the chaos profile (C20).
var OddNodeKinds = []string{"noalloc", "zerocap", "zerocpu", "emptyprov", "shortprov", "longprov", "garbageprov", "nilmaps", "zerocreation", "nocpu", "tinycpu", "tinymem"}

// OddPodKinds are the malformed pod shapes of the chaos profile (C20).
var OddPodKinds = []string{"nocontainers", "norequests", "affinityEmpty", "nodeAffinityEmpty", "requiredEmpty", "termNoExpr", "exprNoValues", "antiAffinityOnly", "podAffinityOnly", "preferredOnly",
	"hugeReq", "bigCPU", "bigMem", "noConditions", "negReq", "initOnly", "overheadOnly", "unknownNode", "nilEverything"}

// applyOddNode registers a node of group a.Group backed by a fresh ASG instance, then bends it.
func (w *World) applyOddNode(a Action) {
	g := w.ASG(a.Group)
	if a.Key == "dupprov" {
		// a kubelet re-registered under another node name: a second, younger node object for an
		// instance that already has one (the old object lingers until it is garbage collected)
		names := w.GroupNodeNames(a.Group)
		if len(names) == 0 {
			return
		}
		src := w.K.Nodes[names[a.N%len(names)]]
		if inst := w.A.Instances[instanceIDOf(src.Spec.ProviderID)]; inst != nil {
			n := w.NewNodeFor(a.Group, inst, time.Now())
			n.Spec.ProviderID = src.Spec.ProviderID
			w.K.PutNode(n)
		}
		return
	}
	inst := w.A.NewInstance(g.Name)
	n := w.NewNodeFor(a.Group, inst, time.Now().Add(-time.Duration(a.N)*time.Second))
	switch a.Key {
	case "noalloc":
		n.Status.Allocatable = nil
	case "zerocap":
		n.Status.Allocatable = v1.ResourceList{v1.ResourceCPU: qty(0), v1.ResourceMemory: qtyB(0)}
	case "zerocpu":
		n.Status.Allocatable[v1.ResourceCPU] = qty(0)
	case "nocpu":
		delete(n.Status.Allocatable, v1.ResourceCPU)
	case "tinycpu":
		n.Status.Allocatable[v1.ResourceCPU] = qty(1)
	case "tinymem":
		n.Status.Allocatable[v1.ResourceMemory] = qtyB(1)
	case "emptyprov":
		n.Spec.ProviderID = ""
	case "shortprov":
		n.Spec.ProviderID = "aws:///" + inst.ID
	case "longprov":
		n.Spec.ProviderID = inst.ProviderID() + "/extra/parts"
	case "garbageprov":
		n.Spec.ProviderID = "////"
	case "nilmaps":
		n.Annotations = nil
	case "zerocreation":
		n.CreationTimestamp = metav1.Time{}
	}
	w.K.PutNode(n)
}

// applyOddPod adds a malformed pod that selects group a.Group, optionally bound to a.Node.
func (w *World) applyOddPod(a Action) {
	p := w.NewPod(PodSpec{Group: a.Group, Via: "selector", CPU: 100, Mem: 1 << 20, Node: a.Node})
	if a.Node != "" && w.K.Nodes[a.Node] == nil {
		p.Spec.NodeName = ""
	}
	o := &w.Cfg.Groups[a.Group].Opts
	sel := func() { p.Spec.NodeSelector = nil }
	switch a.Key {
	case "nocontainers":
		p.Spec.Containers = nil
	case "norequests":
		p.Spec.Containers = []v1.Container{{Name: "c"}}
	case "affinityEmpty":
		sel()
		p.Spec.Affinity = &v1.Affinity{}
	case "nodeAffinityEmpty":
		sel()
		p.Spec.Affinity = &v1.Affinity{NodeAffinity: &v1.NodeAffinity{}}
	case "requiredEmpty":
		sel()
		p.Spec.Affinity = &v1.Affinity{NodeAffinity: &v1.NodeAffinity{RequiredDuringSchedulingIgnoredDuringExecution: &v1.NodeSelector{}}}
	case "termNoExpr":
		sel()
		p.Spec.Affinity = &v1.Affinity{NodeAffinity: &v1.NodeAffinity{RequiredDuringSchedulingIgnoredDuringExecution: &v1.NodeSelector{NodeSelectorTerms: []v1.NodeSelectorTerm{{}}}}}
	case "exprNoValues":
		sel()
		p.Spec.Affinity = &v1.Affinity{NodeAffinity: &v1.NodeAffinity{RequiredDuringSchedulingIgnoredDuringExecution: &v1.NodeSelector{NodeSelectorTerms: []v1.NodeSelectorTerm{
			{MatchExpressions: []v1.NodeSelectorRequirement{{Key: o.LabelKey, Operator: v1.NodeSelectorOpIn}}}}}}}
	case "antiAffinityOnly": // replicas spread over hosts: an affinity stanza without any node affinity in it
		sel()
		p.Spec.Affinity = &v1.Affinity{PodAntiAffinity: &v1.PodAntiAffinity{RequiredDuringSchedulingIgnoredDuringExecution: []v1.PodAffinityTerm{
			{TopologyKey: "kubernetes.io/hostname", LabelSelector: &metav1.LabelSelector{MatchLabels: map[string]string{"app": "spread"}}}}}}
	case "podAffinityOnly":
		sel()
		p.Spec.Affinity = &v1.Affinity{PodAffinity: &v1.PodAffinity{RequiredDuringSchedulingIgnoredDuringExecution: []v1.PodAffinityTerm{
			{TopologyKey: "topology.kubernetes.io/zone", LabelSelector: &metav1.LabelSelector{MatchLabels: map[string]string{"app": "cache"}}}}}}
	case "preferredOnly": // a node affinity that only states a preference
		sel()
		p.Spec.Affinity = &v1.Affinity{NodeAffinity: &v1.NodeAffinity{PreferredDuringSchedulingIgnoredDuringExecution: []v1.PreferredSchedulingTerm{
			{Weight: 10, Preference: v1.NodeSelectorTerm{MatchExpressions: []v1.NodeSelectorRequirement{{Key: o.LabelKey, Operator: v1.NodeSelectorOpIn, Values: []string{o.LabelValue}}}}}}}}
	case "hugeReq":
		p.Spec.Containers[0].Resources.Requests = v1.ResourceList{v1.ResourceCPU: resource.MustParse("9E"), v1.ResourceMemory: resource.MustParse("8Ei")}
	case "bigCPU": // absurd but representable: 9e15 cores = 9e18 millicores
		p.Spec.Containers[0].Resources.Requests = v1.ResourceList{v1.ResourceCPU: resource.MustParse("9P")}
	case "bigMem": // 9e15 bytes: still representable in milli-bytes
		p.Spec.Containers[0].Resources.Requests = v1.ResourceList{v1.ResourceMemory: resource.MustParse("9P")}
	case "negReq":
		p.Spec.Containers[0].Resources.Requests = v1.ResourceList{v1.ResourceCPU: resource.MustParse("-1"), v1.ResourceMemory: resource.MustParse("-1Gi")}
	case "noConditions":
		p.Status.Conditions = nil
	case "initOnly":
		p.Spec.InitContainers = p.Spec.Containers
		p.Spec.Containers = nil
	case "overheadOnly":
		p.Spec.Containers = nil
		p.Spec.Overhead = v1.ResourceList{v1.ResourceCPU: qty(50)}
	case "unknownNode":
		p.Spec.NodeName = "no-such-node"
	case "nilEverything":
		p.Annotations, p.OwnerReferences, p.Labels = nil, nil, nil
	}
	w.Pods = append(w.Pods, p)
}
