// Package world is the shared engine: a simulated cluster + cloud, environment actions,
// the scan wrapper around the real Controller.RunOnce, and the per-property monitors.
package world

import (
	"fmt"
	"io"
	"sort"
	"strings"
	"time"

	"github.com/atlassian/escalator/pkg/cloudprovider"
	awsprov "github.com/atlassian/escalator/pkg/cloudprovider/aws"
	"github.com/atlassian/escalator/pkg/controller"
	log "github.com/sirupsen/logrus"
	v1 "k8s.io/api/core/v1"
	"k8s.io/apimachinery/pkg/api/resource"
	metav1 "k8s.io/apimachinery/pkg/apis/meta/v1"
	"k8s.io/apimachinery/pkg/types"

	"verifharness/ref"
	"verifharness/sim"
)

// GroupSpec is one configured node group plus the node size the simulated ASG launches.
type GroupSpec struct {
	Opts    controller.NodeGroupOptions `json:"opts"`
	NodeCPU int64                       `json:"nodeCPU"` // millicores
	NodeMem int64                       `json:"nodeMem"` // bytes
	// initial cloud state
	ASGMin, ASGMax int64
	InitNodes      int
}

// Config is a whole escalator configuration.
type Config struct {
	Groups    []GroupSpec `json:"groups"`
	GlobalDry bool        `json:"globalDry"`
	// Linger: groups keep listing an instance as Terminating after its termination was accepted,
	// until the environment lets them settle (gcNodes / reconcile / a clock step of minutes)
	Linger bool `json:"linger,omitempty"`
}

// IsDry reports whether group g runs in dry mode.
func (c *Config) IsDry(g int) bool { return c.GlobalDry || c.Groups[g].Opts.DryMode }

// IsFleet reports whether group g scales through CreateFleet.
func (c *Config) IsFleet(g int) bool { return c.Groups[g].Opts.AWS.LaunchTemplateID != "" }

// World is the simulated universe of one case.
type World struct {
	Cfg  Config
	J    *sim.Journal
	K    *sim.K8s
	V    *sim.View
	A    *sim.AWS
	Pods []*v1.Pod

	Ctrl  *controller.Controller
	Epoch int // controller incarnation
	// FailBuild makes the next n Builder.Build calls fail
	FailBuild int

	// lock model, reconstructed from the journal: time of the last accepted scale-up per
	// group by the current controller incarnation
	LockT0 map[int]time.Time
	// scan index of the last cloud scale-up of a group that failed (cleared by a success or a restart)
	FailedIncrease map[int]int
	// allocatable of the first listed node of the group's last non-empty scan in this controller
	// incarnation: the "last observed node size" used when scaling from zero
	LastSize map[int]v1.ResourceList
	// FleetFails: consecutive failed fleet provisionings per group on the current provider object
	FleetFails map[int]int

	uidSeq  int
	podSeq  map[int]int // per group, so that changes inside one group do not rename another group's objects
	nodeSeq map[int]int
	Scans   int
	Log     []Action // reified history
	Last    *ScanRecord
	recs    []*ScanRecord
}

// exitSentinel is what logrus' Fatal turns into inside the harness.
type exitSentinel struct{ code int }

func init() {
	log.SetOutput(io.Discard)
	log.SetLevel(log.DebugLevel)
	log.StandardLogger().ExitFunc = func(code int) { panic(exitSentinel{code}) }
}

// New builds a world from a configuration: ASGs with InitNodes registered nodes each.
func New(cfg Config) *World {
	j := sim.NewJournal()
	w := &World{Cfg: cfg, J: j, K: sim.NewK8s(j), V: sim.NewView(j), A: sim.NewAWS(j), LockT0: map[int]time.Time{}}
	w.A.Linger = cfg.Linger
	for g := range cfg.Groups {
		gs := &cfg.Groups[g]
		w.A.AddASG(gs.Opts.CloudProviderGroupName, gs.ASGMin, gs.ASGMax, int64(gs.InitNodes), fmt.Sprintf("subnet-g%da,subnet-g%db", g, g))
	}
	return w
}

// CloudName returns the ASG name of group g.
func (w *World) CloudName(g int) string { return w.Cfg.Groups[g].Opts.CloudProviderGroupName }

// ASG returns the simulated ASG of group g.
func (w *World) ASG(g int) *sim.ASG { return w.A.ASGs[w.CloudName(g)] }

// GroupOfASG maps an ASG name to the group index, -1 if none.
func (w *World) GroupOfASG(name string) int {
	for g := range w.Cfg.Groups {
		if w.CloudName(g) == name {
			return g
		}
	}
	return -1
}

// GroupOfNode maps a node to its group by label, -1 if none.
func (w *World) GroupOfNode(n *v1.Node) int {
	if n == nil {
		return -1
	}
	for g := range w.Cfg.Groups {
		o := &w.Cfg.Groups[g].Opts
		if ref.NodeInGroup(n, o.LabelKey, o.LabelValue) {
			return g
		}
	}
	return -1
}

// builder hands the controller a fresh real AWS provider over the simulated AWS.
type builder struct{ w *World }

func (b builder) Build() (cloudprovider.CloudProvider, error) {
	b.w.J.Add(sim.Entry{Kind: sim.MBuild})
	if b.w.FailBuild > 0 {
		b.w.FailBuild--
		return nil, fmt.Errorf("injected failure: build cloud provider")
	}
	var cfgs []cloudprovider.NodeGroupConfig
	for _, gs := range b.w.Cfg.Groups {
		n := gs.Opts
		cfgs = append(cfgs, cloudprovider.NodeGroupConfig{
			Name:    n.Name,
			GroupID: n.CloudProviderGroupName,
			AWSConfig: cloudprovider.AWSNodeGroupConfig{
				LaunchTemplateID:          n.AWS.LaunchTemplateID,
				LaunchTemplateVersion:     n.AWS.LaunchTemplateVersion,
				FleetInstanceReadyTimeout: n.AWS.FleetInstanceReadyTimeoutDuration(),
				Lifecycle:                 n.AWS.Lifecycle,
				InstanceTypeOverrides:     n.AWS.InstanceTypeOverrides,
				ResourceTagging:           n.AWS.ResourceTagging,
			},
		})
	}
	p, err := awsprov.VerifNewCloudProvider(b.w.A.AutoScaling(), b.w.A.EC2(), cfgs...)
	if err != nil {
		return nil, err
	}
	return &markedProvider{CloudProvider: p, j: b.w.J}, nil
}

// markedProvider journals GetNodeGroup and Refresh so monitors can segment a scan by group.
type markedProvider struct {
	cloudprovider.CloudProvider
	j *sim.Journal
}

func (m *markedProvider) GetNodeGroup(id string) (cloudprovider.NodeGroup, bool) {
	m.j.AddLocked(sim.Entry{Kind: sim.MGetNodeGroup, ASG: id})
	ng, ok := m.CloudProvider.GetNodeGroup(id)
	if !ok || ng == nil {
		return ng, ok
	}
	return &markedGroup{NodeGroup: ng, j: m.j}, true
}

// markedGroup journals the two mutating NodeGroup calls with their outcome.
type markedGroup struct {
	cloudprovider.NodeGroup
	j *sim.Journal
}

func (m *markedGroup) DeleteNodes(nodes ...*v1.Node) error {
	err := m.NodeGroup.DeleteNodes(nodes...)
	e := sim.Entry{Kind: sim.MDeleteNodes, ASG: m.NodeGroup.ID()}
	for _, n := range nodes {
		e.Names = append(e.Names, n.Name)
	}
	if err != nil {
		e.Err, e.ErrType = err.Error(), fmt.Sprintf("%T", err)
	}
	m.j.AddLocked(e)
	return err
}

func (m *markedGroup) IncreaseSize(delta int64) error {
	err := m.NodeGroup.IncreaseSize(delta)
	e := sim.Entry{Kind: sim.MIncreaseSize, ASG: m.NodeGroup.ID(), Value: delta}
	if err != nil {
		e.Err, e.ErrType = err.Error(), fmt.Sprintf("%T", err)
	}
	m.j.AddLocked(e)
	return err
}

func (m *markedProvider) Refresh() error {
	m.j.AddLocked(sim.Entry{Kind: sim.MRefresh})
	return m.CloudProvider.Refresh()
}

// EnsureController (re)builds the controller if there is none.
func (w *World) EnsureController() error {
	if w.Ctrl != nil {
		return nil
	}
	var opts []controller.NodeGroupOptions
	for _, gs := range w.Cfg.Groups {
		opts = append(opts, gs.Opts)
	}
	c, err := controller.VerifNewController(controller.Opts{
		K8SClient:            w.K,
		NodeGroups:           opts,
		CloudProviderBuilder: builder{w},
		ScanInterval:         time.Minute,
		DryMode:              w.Cfg.GlobalDry,
	}, w.V.PodLister(), w.V.NodeLister())
	if err != nil {
		return err
	}
	w.Ctrl = c
	w.Epoch++
	w.LockT0 = map[int]time.Time{}
	w.FailedIncrease = map[int]int{}
	w.LastSize = map[int]v1.ResourceList{}
	return nil
}

// ---------------------------------------------------------------- objects

func qty(milli int64) resource.Quantity { return *resource.NewMilliQuantity(milli, resource.DecimalSI) }
func qtyB(b int64) resource.Quantity    { return *resource.NewQuantity(b, resource.BinarySI) }

// NewNodeFor creates the Node object a kubelet would register for the instance.
func (w *World) NewNodeFor(g int, inst *sim.Instance, created time.Time) *v1.Node {
	gs := &w.Cfg.Groups[g]
	if w.nodeSeq == nil {
		w.nodeSeq = map[int]int{}
	}
	w.nodeSeq[g]++
	n := &v1.Node{
		ObjectMeta: metav1.ObjectMeta{
			Name:              fmt.Sprintf("n%d-%03d", g, w.nodeSeq[g]),
			Labels:            map[string]string{gs.Opts.LabelKey: gs.Opts.LabelValue, "kubernetes.io/hostname": inst.ID},
			CreationTimestamp: metav1.NewTime(created.Truncate(time.Second)),
			// annotations other tools leave on nodes, some with empty values
			Annotations: map[string]string{"node.alpha.kubernetes.io/ttl": "0", "maintenance": "", "alpha.example.com/notes": "", "volumes.kubernetes.io/controller-managed-attach-detach": "true"},
		},
		Spec: v1.NodeSpec{ProviderID: inst.ProviderID()},
		Status: v1.NodeStatus{
			Allocatable: v1.ResourceList{v1.ResourceCPU: qty(gs.NodeCPU), v1.ResourceMemory: qtyB(gs.NodeMem), v1.ResourcePods: *resource.NewQuantity(110, resource.DecimalSI)},
			// like a real kubelet: capacity is the machine, allocatable is what is left after reservations
			Capacity: v1.ResourceList{v1.ResourceCPU: qty(gs.NodeCPU + gs.NodeCPU/16 + 80), v1.ResourceMemory: qtyB(gs.NodeMem + gs.NodeMem/10 + 1<<20), v1.ResourcePods: *resource.NewQuantity(110, resource.DecimalSI)},
		},
	}
	return n
}

// PodSpec is the reified description of a pod to create.
type PodSpec struct {
	Group   int    `json:"g"`              // group it selects (-1: none)
	Via     string `json:"via"`            // "selector" | "affinity" | "affinityOr" | "affinityAnd" | "none"
	CPU     int64  `json:"cpu"`            // millicores (single container)
	Mem     int64  `json:"mem"`            // bytes
	Node    string `json:"node,omitempty"` // bound node ("" = pending)
	Daemon  bool   `json:"daemon,omitempty"`
	Static  bool   `json:"static,omitempty"`
	InitCPU int64  `json:"initCPU,omitempty"`
	// a second init container (requests of init containers count by their per-resource maximum)
	Init2CPU int64 `json:"init2CPU,omitempty"`
	Init2Mem int64 `json:"init2Mem,omitempty"`
	InitMem  int64 `json:"initMem,omitempty"`
	OverCPU  int64 `json:"overCPU,omitempty"`
	OverMem  int64 `json:"overMem,omitempty"`
	Split    int   `json:"split,omitempty"` // number of containers the request is split over (>=1)
	// Cross adds a required node-affinity expression that mentions another group without selecting it:
	// "notin:<g>" = (g's key NotIn [g's value]), "otherkey:<g>" = (unrelated key In [g's value]), "exists:<g>" = (g's key Exists)
	Cross    string `json:"cross,omitempty"`
	Finished bool   `json:"finished,omitempty"`
	// BoundPending: bound to Node but still in phase Pending (scheduled, containers not started yet)
	BoundPending bool `json:"boundPending,omitempty"`
	// Terminating: seconds until the pod's deletion deadline (negative: the deadline has passed);
	// a gracefully deleted pod stays listed, bound and in its phase until kubelet and finalizers are done
	Terminating int64 `json:"terminating,omitempty"`
	// Tolerate: "all" = blanket toleration (operator Exists), "escalator" = tolerates the escalator taint key
	Tolerate string `json:"tolerate,omitempty"`
	// EmptyAffinity: `affinity: {}` on a pod that names no group (an empty object, no rule inside)
	EmptyAffinity bool `json:"emptyAffinity,omitempty"`
	// Age: the pod was created this many seconds ago (it may predate the node it is bound to:
	// pods wait for the scale-up that brings their node)
	Age int64 `json:"age,omitempty"`
}

// Dur parses a configured duration for the oracle side, independently of escalator's own
// accessors (which are code under test): a value that does not parse counts as 0.
func Dur(s string) time.Duration {
	d, err := time.ParseDuration(s)
	if err != nil {
		return 0
	}
	return d
}

// NewPod materialises a PodSpec.
func (w *World) NewPod(s PodSpec) *v1.Pod {
	if w.podSeq == nil {
		w.podSeq = map[int]int{}
	}
	p := &v1.Pod{ObjectMeta: metav1.ObjectMeta{Namespace: "ns", Annotations: map[string]string{}}}
	split := s.Split
	if split < 1 {
		split = 1
	}
	for i := 0; i < split; i++ {
		c, m := s.CPU/int64(split), s.Mem/int64(split)
		if i == 0 {
			c += s.CPU % int64(split)
			m += s.Mem % int64(split)
		}
		rl := v1.ResourceList{}
		if c > 0 {
			rl[v1.ResourceCPU] = qty(c)
		}
		if m > 0 {
			rl[v1.ResourceMemory] = qtyB(m)
		}
		p.Spec.Containers = append(p.Spec.Containers, v1.Container{Name: fmt.Sprintf("c%d", i), Resources: v1.ResourceRequirements{Requests: rl}})
	}
	if s.InitCPU > 0 || s.InitMem > 0 {
		p.Spec.InitContainers = []v1.Container{{Name: "init", Resources: v1.ResourceRequirements{Requests: v1.ResourceList{v1.ResourceCPU: qty(s.InitCPU), v1.ResourceMemory: qtyB(s.InitMem)}}}}
		if s.Init2CPU > 0 || s.Init2Mem > 0 {
			p.Spec.InitContainers = append(p.Spec.InitContainers, v1.Container{Name: "init2", Resources: v1.ResourceRequirements{Requests: v1.ResourceList{v1.ResourceCPU: qty(s.Init2CPU), v1.ResourceMemory: qtyB(s.Init2Mem)}}})
		}
	}
	if s.OverCPU > 0 || s.OverMem > 0 {
		p.Spec.Overhead = v1.ResourceList{v1.ResourceCPU: qty(s.OverCPU), v1.ResourceMemory: qtyB(s.OverMem)}
	}
	if s.Group >= 0 && s.Group < len(w.Cfg.Groups) {
		o := &w.Cfg.Groups[s.Group].Opts
		switch s.Via {
		case "selector":
			p.Spec.NodeSelector = map[string]string{o.LabelKey: o.LabelValue}
		case "affinity":
			p.Spec.Affinity = &v1.Affinity{NodeAffinity: &v1.NodeAffinity{RequiredDuringSchedulingIgnoredDuringExecution: &v1.NodeSelector{
				NodeSelectorTerms: []v1.NodeSelectorTerm{{MatchExpressions: []v1.NodeSelectorRequirement{{Key: o.LabelKey, Operator: v1.NodeSelectorOpIn, Values: []string{"zzz", o.LabelValue}}}}}}}}
		case "affinityOr": // one term per pool; this group's pool is not listed first
			in := func(vals ...string) v1.NodeSelectorTerm {
				return v1.NodeSelectorTerm{MatchExpressions: []v1.NodeSelectorRequirement{{Key: o.LabelKey, Operator: v1.NodeSelectorOpIn, Values: vals}}}
			}
			p.Spec.Affinity = &v1.Affinity{NodeAffinity: &v1.NodeAffinity{RequiredDuringSchedulingIgnoredDuringExecution: &v1.NodeSelector{
				NodeSelectorTerms: []v1.NodeSelectorTerm{in("zzz-" + o.LabelValue), in("zzz", o.LabelValue)}}}}
		case "affinityAnd": // several expressions in one term; the one naming this group's value is the last
			p.Spec.Affinity = &v1.Affinity{NodeAffinity: &v1.NodeAffinity{RequiredDuringSchedulingIgnoredDuringExecution: &v1.NodeSelector{
				NodeSelectorTerms: []v1.NodeSelectorTerm{{MatchExpressions: []v1.NodeSelectorRequirement{
					{Key: "kubernetes.io/arch", Operator: v1.NodeSelectorOpIn, Values: []string{"amd64"}},
					{Key: o.LabelKey, Operator: v1.NodeSelectorOpIn, Values: []string{"zzz"}},
					{Key: o.LabelKey, Operator: v1.NodeSelectorOpIn, Values: []string{o.LabelValue}}}}}}}}
		}
	}
	if s.Terminating != 0 {
		ts := metav1.NewTime(time.Now().Add(time.Duration(s.Terminating) * time.Second).Truncate(time.Second))
		grace := int64(30)
		p.DeletionTimestamp, p.DeletionGracePeriodSeconds = &ts, &grace
	}
	switch s.Tolerate {
	case "all":
		p.Spec.Tolerations = []v1.Toleration{{Operator: v1.TolerationOpExists}}
	case "escalator":
		p.Spec.Tolerations = []v1.Toleration{{Key: ref.TaintKey, Operator: v1.TolerationOpExists, Effect: v1.TaintEffectNoSchedule},
			{Key: "node.kubernetes.io/not-ready", Operator: v1.TolerationOpExists, Effect: v1.TaintEffectNoExecute}}
	}
	if s.EmptyAffinity && p.Spec.Affinity == nil { // also on pods that name a group by nodeSelector
		p.Spec.Affinity = &v1.Affinity{}
	}
	if s.Cross != "" {
		var kind string
		var og int
		if _, err := fmt.Sscanf(strings.Replace(s.Cross, ":", " ", 1), "%s %d", &kind, &og); err == nil && og >= 0 && og < len(w.Cfg.Groups) {
			oo := &w.Cfg.Groups[og].Opts
			var r v1.NodeSelectorRequirement
			switch kind {
			case "notin":
				r = v1.NodeSelectorRequirement{Key: oo.LabelKey, Operator: v1.NodeSelectorOpNotIn, Values: []string{oo.LabelValue}}
			case "otherkey":
				r = v1.NodeSelectorRequirement{Key: "unrelated/" + oo.LabelKey, Operator: v1.NodeSelectorOpIn, Values: []string{oo.LabelValue}}
			default:
				r = v1.NodeSelectorRequirement{Key: oo.LabelKey, Operator: v1.NodeSelectorOpExists}
			}
			if p.Spec.Affinity == nil {
				p.Spec.Affinity = &v1.Affinity{}
			}
			if p.Spec.Affinity.NodeAffinity == nil {
				p.Spec.Affinity.NodeAffinity = &v1.NodeAffinity{}
			}
			if p.Spec.Affinity.NodeAffinity.RequiredDuringSchedulingIgnoredDuringExecution == nil {
				p.Spec.Affinity.NodeAffinity.RequiredDuringSchedulingIgnoredDuringExecution = &v1.NodeSelector{}
			}
			req := p.Spec.Affinity.NodeAffinity.RequiredDuringSchedulingIgnoredDuringExecution
			if len(req.NodeSelectorTerms) == 0 {
				req.NodeSelectorTerms = []v1.NodeSelectorTerm{{}}
			}
			req.NodeSelectorTerms[0].MatchExpressions = append(req.NodeSelectorTerms[0].MatchExpressions, r)
		}
	}
	if s.Daemon {
		p.OwnerReferences = []metav1.OwnerReference{{Kind: "DaemonSet", Name: "ds", APIVersion: "apps/v1"}}
	} else {
		p.OwnerReferences = []metav1.OwnerReference{{Kind: "Job", Name: "job", APIVersion: "batch/v1"}}
	}
	if s.Static { // a mirror pod as the kubelet creates it: source / mirror / hash annotations, owned by its Node
		p.Annotations[ref.StaticSource] = "file"
		p.Annotations["kubernetes.io/config.mirror"] = "0123456789abcdef"
		p.Annotations["kubernetes.io/config.hash"] = "0123456789abcdef"
		ctrl := true
		p.OwnerReferences = []metav1.OwnerReference{{APIVersion: "v1", Kind: "Node", Name: s.Node, UID: "node-uid", Controller: &ctrl}}
	}
	// the name sequence follows the group the pod is attributed to (not the group it was drawn
	// for), so that adding pods to one group never renames another group's pods
	ag := w.podGroup(p)
	w.podSeq[ag]++
	if ag < 0 {
		p.Name = fmt.Sprintf("px-%04d", w.podSeq[ag])
	} else {
		p.Name = fmt.Sprintf("p%d-%04d", ag, w.podSeq[ag])
	}
	// like real pods: a UID and a creation time (pods usually exist before the node a scale-up
	// brings for them)
	w.uidSeq++
	p.UID = types.UID(fmt.Sprintf("uid-%d", w.uidSeq))
	p.CreationTimestamp = metav1.NewTime(time.Now().Add(-time.Duration(s.Age) * time.Second).Truncate(time.Second))
	p.Spec.NodeName = s.Node
	switch {
	case s.Finished:
		p.Status.Phase = v1.PodSucceeded
	case s.Node != "" && s.BoundPending:
		p.Status.Phase = v1.PodPending
		p.Status.Conditions = []v1.PodCondition{{Type: v1.PodScheduled, Status: v1.ConditionTrue}}
	case s.Node != "":
		p.Status.Phase = v1.PodRunning
		p.Status.Conditions = []v1.PodCondition{{Type: v1.PodScheduled, Status: v1.ConditionTrue}}
	default:
		p.Status.Phase = v1.PodPending
		p.Status.Conditions = []v1.PodCondition{{Type: v1.PodScheduled, Status: v1.ConditionFalse, Reason: "Unschedulable"}}
	}
	return p
}

// ---------------------------------------------------------------- actions

// Action is one reified step of a history. Every field is a concrete value so that a
// recorded history can be replayed without drawing.
type Action struct {
	Op     string         `json:"op"`
	Group  int            `json:"g,omitempty"`
	Node   string         `json:"node,omitempty"`
	N      int            `json:"n,omitempty"`
	M      int            `json:"m,omitempty"`
	D      time.Duration  `json:"d,omitempty"`
	Key    string         `json:"key,omitempty"`
	Val    string         `json:"val,omitempty"`
	Effect string         `json:"effect,omitempty"`
	Flag   bool           `json:"flag,omitempty"`
	Order  []string       `json:"order,omitempty"`
	Pods   []PodSpec      `json:"pods,omitempty"`
	Names  []string       `json:"names,omitempty"`
	Faults []sim.Fault    `json:"faults,omitempty"`
	Fleet  *sim.FleetPlan `json:"fleet,omitempty"`
	Ages   []int64        `json:"ages,omitempty"` // seconds
	Seq    []Action       `json:"seq,omitempty"`  // "seq": sub-actions executed in order (recorded individually)
}

func (a Action) String() string {
	s := a.Op
	add := func(f string, args ...any) { s += " " + fmt.Sprintf(f, args...) }
	switch a.Op {
	case "scan":
		add("sync=%v%s order=%v", a.Flag, map[bool]string{true: " (pods only)", false: ""}[a.Val == "pods" && !a.Flag], a.Order)
	case "advance":
		add("%v", a.D)
	case "addPods", "setPods":
		add("g=%d pods=[", a.Group)
		for _, p := range a.Pods {
			s += fmt.Sprintf(" {%s cpu=%dm mem=%d node=%q", p.Via, p.CPU, p.Mem, p.Node)
			if p.Group != a.Group {
				s += fmt.Sprintf(" g=%d", p.Group)
			}
			if p.Daemon {
				s += " daemonset"
			}
			if p.InitCPU+p.InitMem > 0 {
				s += fmt.Sprintf(" init=%dm/%d", p.InitCPU, p.InitMem)
			}
			if p.OverCPU+p.OverMem > 0 {
				s += fmt.Sprintf(" overhead=%dm/%d", p.OverCPU, p.OverMem)
			}
			if p.Split > 1 {
				s += fmt.Sprintf(" containers=%d", p.Split)
			}
			if p.Cross != "" {
				s += " cross=" + p.Cross
			}
			if p.BoundPending {
				s += " bound-pending"
			}
			s += "}"
		}
		s += " ]"
	case "launch":
		add("g=%d n=%d ages=%v", a.Group, a.N, a.Ages)
	case "taint":
		add("node=%s %s=%q:%s keepExisting=%v", a.Node, a.Key, a.Val, a.Effect, a.Flag)
	case "setCreated":
		add("node=%s zero=%v age=%ds", a.Node, a.Flag, a.N)
	case "untaint":
		add("node=%s key=%s", a.Node, a.Key)
	case "cordon":
		add("node=%s %v", a.Node, a.Flag)
	case "relabel":
		add("node=%s %s=%q drop=%v", a.Node, a.Key, a.Val, a.Flag)
	case "fracAlloc":
		add("node=%s memory=%s", a.Node, a.Val)
	case "annotate":
		add("node=%s val=%q remove=%v", a.Node, a.Val, a.Flag)
	case "asgEdit":
		add("g=%d min=%d max=%d", a.Group, a.N, a.M)
	case "gracefulDelete":
		add("pods=%v deadline=%+ds", a.Names, a.N)
	case "resizePod":
		add("pod=%v cpu=%dm mem=%dMB", a.Names, a.N, a.M)
	case "bulk":
		add("g=%d %s count=%d from=%d back=%v val=%q", a.Group, a.Key, a.N, a.M, a.D, a.Val)
	case "condition":
		add("node=%s Ready=%q", a.Node, a.Val)
	case "terminating":
		add("node=%s finalizer-holds=%v", a.Node, a.Flag)
	case "latency":
		add("%v", a.D)
	case "fault":
		add("%+v concurrentWriter=%q", a.Faults, a.Val)
	case "fleetPlan":
		add("%+v", *a.Fleet)
	default:
		if a.Node != "" {
			add("node=%s", a.Node)
		}
		if len(a.Names) > 0 {
			add("names=%v", a.Names)
		}
		if a.N != 0 {
			add("n=%d", a.N)
		}
		add("g=%d", a.Group)
	}
	return s
}

// Apply executes an action. It returns the scan record for "scan", nil otherwise.
// Actions naming objects that no longer exist are no-ops (reported through ok=false).
func (w *World) Apply(a Action) (rec *ScanRecord, ok bool) {
	if a.Op != "seq" { // "@newest" names the most recently registered node of the action's group
		resolve := func(name string) string {
			if name != "@newest" {
				return name
			}
			best, bestSeq := "", -1
			for _, n := range w.GroupNodeNames(a.Group) {
				var g, seq int
				if _, err := fmt.Sscanf(n, "n%d-%d", &g, &seq); err == nil && seq > bestSeq {
					best, bestSeq = n, seq
				}
			}
			return best
		}
		a.Node = resolve(a.Node)
		if len(a.Names) > 0 {
			names := make([]string, len(a.Names))
			for i, n := range a.Names {
				names[i] = resolve(n)
			}
			a.Names = names
		}
	}
	if a.Op == "seq" {
		ok = true
		for _, sub := range a.Seq {
			if r, _ := w.Apply(sub); r != nil {
				rec = r
			}
		}
		return
	}
	w.Log = append(w.Log, a)
	ok = true
	switch a.Op {
	case "scan":
		if a.Val == "pods" && !a.Flag { // only the pod informer has caught up
			w.V.SyncPods(w.Pods)
		}
		rec = w.Scan(a.Flag, a.Order)
	case "advance":
		if a.D > 0 && a.D < 1000*24*time.Hour {
			time.Sleep(a.D)
		}
		if a.D >= 5*time.Minute { // terminations a group still lists are over by now
			w.A.Settle()
		}
	case "launch": // ASG instances come up and register as nodes, created Ages[i] seconds ago
		g := w.ASG(a.Group)
		for i := 0; i < a.N; i++ {
			inst := w.A.NewInstance(g.Name)
			age := int64(0)
			if i < len(a.Ages) {
				age = a.Ages[i]
			}
			inst.Launch = time.Now().Add(-time.Duration(age+30) * time.Second)
			inst.ReadyAt = inst.Launch
			w.K.PutNode(w.NewNodeFor(a.Group, inst, time.Now().Add(-time.Duration(age)*time.Second)))
		}
		if a.Flag { // grow desired along (externally driven growth)
			g.Desired += int64(a.N)
		}
	case "reconcile": // ASG launches instances up to desired; no Node objects yet
		w.A.Settle()
		g := w.ASG(a.Group)
		for int64(len(g.Instances)) < g.Desired {
			w.A.NewInstance(g.Name)
		}
	case "register": // instances without a Node register
		g := w.ASG(a.Group)
		have := map[string]bool{}
		for _, n := range w.K.Nodes {
			have[n.Spec.ProviderID] = true
		}
		for _, id := range g.Instances {
			inst := w.A.Instances[id]
			if !have[inst.ProviderID()] {
				w.K.PutNode(w.NewNodeFor(a.Group, inst, time.Now()))
			}
		}
	case "settle": // the groups finish the terminations they still list
		w.A.Settle()
	case "asgDeleting": // somebody force-deletes the ASG: status set, sizes zeroed, the group is still listed
		if g := w.ASG(a.Group); g != nil {
			g.Status = "Delete in progress"
			g.Min, g.Max, g.Desired = 0, 0, 0
		}
	case "gracefulDelete": // pods are deleted through the API and stay listed until their deadline (N seconds from now) and beyond
		for _, p := range w.Pods {
			for _, name := range a.Names {
				if p.Name == name && p.DeletionTimestamp == nil {
					ts := metav1.NewTime(time.Now().Add(time.Duration(a.N) * time.Second).Truncate(time.Second))
					p.DeletionTimestamp = &ts
				}
			}
		}
	case "clonePod": // same name, other namespace, own UID (pod names are unique per namespace only)
		for _, p := range w.Pods {
			if len(a.Names) > 0 && p.Name == a.Names[0] && p.Namespace != a.Val {
				q := p.DeepCopy()
				q.Namespace = a.Val
				w.uidSeq++
				q.UID = types.UID(fmt.Sprintf("uid-%d", w.uidSeq))
				w.Pods = append(w.Pods, q)
				break
			}
		}
	case "resizePod": // in-place resize: same pod (name, UID), other requests
		for _, p := range w.Pods {
			if len(a.Names) > 0 && p.Name == a.Names[0] && len(p.Spec.Containers) > 0 {
				p.Spec.Containers[0].Resources.Requests = v1.ResourceList{v1.ResourceCPU: qty(int64(a.N)), v1.ResourceMemory: qtyB(int64(a.M) * 1_000_000)}
			}
		}
	case "heartbeat": // the kubelet's status update: the stored object moves on (resourceVersion), the content that matters does not
		if n := w.K.Nodes[a.Node]; n != nil {
			w.K.Touch(a.Node)
		} else {
			ok = false
		}
	case "gcNodes": // cloud controller removes Node objects whose instance is gone
		w.A.Settle()
		for _, name := range w.K.SortedNames() {
			n := w.K.Nodes[name]
			id := instanceIDOf(n.Spec.ProviderID)
			if inst := w.A.Instances[id]; inst != nil && inst.Dead {
				w.K.RemoveNode(name)
				w.dropPodsOn(name)
			}
		}
	case "addPods":
		for _, s := range a.Pods {
			if s.Node != "" && w.K.Nodes[s.Node] == nil {
				s.Node = ""
			}
			w.Pods = append(w.Pods, w.NewPod(s))
		}
	case "setPods": // replace all pods attributed to the group
		w.removeGroupPods(a.Group)
		for _, s := range a.Pods {
			if s.Node != "" && w.K.Nodes[s.Node] == nil {
				s.Node = ""
			}
			w.Pods = append(w.Pods, w.NewPod(s))
		}
	case "finishPods":
		drop := map[string]bool{}
		for _, n := range a.Names {
			drop[n] = true
		}
		out := w.Pods[:0:0]
		for _, p := range w.Pods {
			if !drop[p.Name] {
				out = append(out, p)
			}
		}
		w.Pods = out
	case "replacePod": // Names[0] is deleted and re-created with the same name and the shape Pods[0]
		if len(a.Names) == 1 && len(a.Pods) == 1 {
			for i, p := range w.Pods {
				if p.Name == a.Names[0] {
					spec := a.Pods[0]
					spec.Node = p.Spec.NodeName
					if spec.Node != "" && w.K.Nodes[spec.Node] == nil {
						spec.Node = ""
					}
					np := w.NewPod(spec)
					np.Name = p.Name
					w.Pods[i] = np
				}
			}
		}
	case "retargetPod": // a gated pod gets its nodeSelector / affinity set in place (same UID, same name)
		if len(a.Names) == 1 && len(a.Pods) == 1 {
			for i, p := range w.Pods {
				if p.Name == a.Names[0] {
					spec := a.Pods[0]
					np := w.NewPod(spec)
					keep := p.DeepCopy()
					keep.Spec.NodeSelector, keep.Spec.Affinity = np.Spec.NodeSelector, np.Spec.Affinity
					w.Pods[i] = keep
				}
			}
		}
	case "bulk":
		names := w.GroupNodeNames(a.Group)
		if len(names) == 0 {
			ok = false
			break
		}
		k := a.N
		if k <= 0 || k > len(names) {
			k = len(names)
		}
		has := func(what string) bool { return strings.Contains(a.Key, what) }
		for i := 0; i < k; i++ {
			n := w.K.Nodes[names[(a.M+i)%len(names)]]
			if n == nil {
				continue
			}
			if has("untaint") {
				n.Spec.Taints = removeTaint(removeTaint(n.Spec.Taints, ref.TaintKey), ref.ForceTaintKey)
			} else if has("taint") {
				n.Spec.Taints = append(removeTaint(n.Spec.Taints, ref.TaintKey), v1.Taint{Key: ref.TaintKey, Value: fmt.Sprint(time.Now().Add(-a.D).Unix()), Effect: v1.TaintEffectNoSchedule})
			}
			if has("force") {
				n.Spec.Taints = append(removeTaint(n.Spec.Taints, ref.ForceTaintKey), v1.Taint{Key: ref.ForceTaintKey, Value: fmt.Sprint(time.Now().Unix()), Effect: v1.TaintEffectNoSchedule})
			}
			if has("annotate") {
				if n.Annotations == nil {
					n.Annotations = map[string]string{}
				}
				n.Annotations[ref.NoDeleteKey] = a.Val
			}
			if has("cordon") {
				n.Spec.Unschedulable = true
			}
			if has("drain") {
				w.dropPodsOn(n.Name)
			}
		}
	case "condition": // Ready condition as the kubelet / node controller reports it ("" removes all conditions)
		if n := w.K.Nodes[a.Node]; n != nil {
			if a.Val == "" {
				n.Status.Conditions = nil
			} else {
				n.Status.Conditions = []v1.NodeCondition{
					{Type: v1.NodeMemoryPressure, Status: v1.ConditionFalse},
					{Type: v1.NodeReady, Status: v1.ConditionStatus(a.Val), LastTransitionTime: metav1.NewTime(time.Now().Truncate(time.Second))}}
			}
		} else {
			ok = false
		}
	case "terminating": // deletionTimestamp set, a finalizer keeps the object (Flag) / the deletion completes (!Flag)
		if n := w.K.Nodes[a.Node]; n != nil {
			if a.Flag {
				ts := metav1.NewTime(time.Now().Truncate(time.Second))
				n.DeletionTimestamp = &ts
				n.Finalizers = []string{"example.com/cleanup"}
			} else if n.DeletionTimestamp != nil {
				w.K.RemoveNode(a.Node)
				w.dropPodsOn(a.Node)
			}
		} else {
			ok = false
		}
	case "latency":
		w.K.Latency = a.D
	case "clearPods": // every pod attributed to the group finishes
		w.removeGroupPods(a.Group)
	case "zeroOut": // every node of the group disappears (instances die, node objects go)
		for _, name := range w.GroupNodeNames(a.Group) {
			if n := w.K.Nodes[name]; n != nil {
				w.A.Kill(instanceIDOf(n.Spec.ProviderID))
				w.K.RemoveNode(name)
				w.dropPodsOn(name)
			}
		}
		if g := w.ASG(a.Group); g != nil {
			g.Desired = g.Min
			if int64(len(g.Instances)) > g.Desired {
				g.Desired = int64(len(g.Instances))
			}
		}
	case "clearNode": // all pods on the node finish
		w.dropPodsOn(a.Node)
	case "schedule": // bind pending pods of the group to untainted, uncordoned nodes (no capacity model needed)
		var targets []string
		for _, name := range w.K.SortedNames() {
			n := w.K.Nodes[name]
			if w.GroupOfNode(n) == a.Group && ref.Classify(n) == ref.Untainted {
				targets = append(targets, name)
			}
		}
		if len(targets) == 0 {
			ok = false
			break
		}
		i := 0
		for _, p := range w.Pods {
			if p.Spec.NodeName == "" && w.podGroup(p) == a.Group && i < a.N {
				p.Spec.NodeName = targets[(i+a.M)%len(targets)]
				p.Status.Phase = v1.PodRunning
				p.Status.Conditions = []v1.PodCondition{{Type: v1.PodScheduled, Status: v1.ConditionTrue}}
				i++
			}
		}
	case "cordon":
		if n := w.K.Nodes[a.Node]; n != nil {
			n.Spec.Unschedulable = a.Flag
		} else {
			ok = false
		}
	case "bumpAfterRefresh": // during the next scan, right after escalator has read the group, somebody else raises its desired capacity by N
		if g := w.ASG(a.Group); g != nil {
			if w.A.BumpAfterDescribe == nil {
				w.A.BumpAfterDescribe = map[string]int64{}
			}
			w.A.BumpAfterDescribe[g.Name] = int64(a.N)
		} else {
			ok = false
		}
	case "fracAlloc": // the node reports allocatable memory as a fractional binary-SI quantity (7.5Gi, 15.5Gi ...)
		if n := w.K.Nodes[a.Node]; n != nil {
			if n.Status.Allocatable == nil {
				n.Status.Allocatable = v1.ResourceList{}
			}
			n.Status.Allocatable[v1.ResourceMemory] = resource.MustParse(a.Val)
			if n.Status.Capacity != nil {
				n.Status.Capacity[v1.ResourceMemory] = resource.MustParse(a.Val)
			}
		} else {
			ok = false
		}
	case "relabel": // Flag: the key is dropped altogether
		if n := w.K.Nodes[a.Node]; n != nil {
			if n.Labels == nil {
				n.Labels = map[string]string{}
			}
			if a.Flag {
				delete(n.Labels, a.Key)
			} else {
				n.Labels[a.Key] = a.Val
			}
		} else {
			ok = false
		}
	case "taint":
		if n := w.K.Nodes[a.Node]; n != nil && a.Flag {
			// keep what is there: the key may then appear twice (Kubernetes allows it for different effects)
			dup := false
			for _, t := range n.Spec.Taints {
				if t.Key == a.Key && string(t.Effect) == a.Effect {
					dup = true
				}
			}
			if !dup {
				n.Spec.Taints = append(n.Spec.Taints, v1.Taint{Key: a.Key, Value: a.Val, Effect: v1.TaintEffect(a.Effect)})
			}
		} else if n != nil {
			n.Spec.Taints = append(removeTaint(n.Spec.Taints, a.Key), v1.Taint{Key: a.Key, Value: a.Val, Effect: v1.TaintEffect(a.Effect)})
		} else {
			ok = false
		}
	case "untaint":
		if n := w.K.Nodes[a.Node]; n != nil {
			n.Spec.Taints = removeTaint(n.Spec.Taints, a.Key)
		} else {
			ok = false
		}
	case "annotate":
		if n := w.K.Nodes[a.Node]; n != nil {
			if n.Annotations == nil {
				n.Annotations = map[string]string{}
			}
			if a.Flag {
				delete(n.Annotations, ref.NoDeleteKey)
			} else {
				n.Annotations[ref.NoDeleteKey] = a.Val
			}
		} else {
			ok = false
		}
	case "asgEdit":
		g := w.ASG(a.Group)
		g.Min, g.Max = int64(a.N), int64(a.M)
		if g.Desired < g.Min {
			g.Desired = g.Min
		}
		if g.Desired > g.Max {
			g.Desired = g.Max
		}
	case "asgDesired":
		g := w.ASG(a.Group)
		d := int64(a.N)
		if d < g.Min {
			d = g.Min
		}
		if d > g.Max {
			d = g.Max
		}
		g.Desired = d
	case "detach": // instance leaves the ASG but the Node stays: a foreign node
		if n := w.K.Nodes[a.Node]; n != nil {
			w.A.Detach(instanceIDOf(n.Spec.ProviderID), a.Flag)
		} else {
			ok = false
		}
	case "killNode": // instance dies from the outside, node object disappears too
		if n := w.K.Nodes[a.Node]; n != nil {
			w.A.Kill(instanceIDOf(n.Spec.ProviderID))
			w.K.RemoveNode(a.Node)
			w.dropPodsOn(a.Node)
		} else {
			ok = false
		}
	case "resizeNode": // allocatable multiplied by N (N = 0: shrunk to almost nothing)
		if n := w.K.Nodes[a.Node]; n != nil {
			g := w.GroupOfNode(n)
			cpu, mem := int64(1), int64(1)
			if a.N > 0 && g >= 0 {
				cpu, mem = w.Cfg.Groups[g].NodeCPU*int64(a.N), w.Cfg.Groups[g].NodeMem*int64(a.N)
			}
			n.Status.Allocatable = v1.ResourceList{v1.ResourceCPU: qty(cpu), v1.ResourceMemory: qtyB(mem)}
		} else {
			ok = false
		}
	case "setCreated": // creation timestamp: zero value (Flag) or N seconds ago
		if n := w.K.Nodes[a.Node]; n != nil {
			if a.Flag {
				n.CreationTimestamp = metav1.Time{}
			} else {
				n.CreationTimestamp = metav1.NewTime(time.Now().Add(-time.Duration(a.N) * time.Second).Truncate(time.Second))
			}
		} else {
			ok = false
		}
	case "drainAndForce": // the named nodes lose their pods and get the force-removal taint
		for _, name := range a.Names {
			if n := w.K.Nodes[name]; n != nil {
				w.dropPodsOn(name)
				n.Spec.Taints = append(removeTaint(n.Spec.Taints, ref.ForceTaintKey), v1.Taint{Key: ref.ForceTaintKey, Value: fmt.Sprint(time.Now().Unix()), Effect: v1.TaintEffectNoSchedule})
			}
		}
	case "restart":
		w.Ctrl = nil
	case "fault":
		w.J.Arm(a.Faults)
		w.FailBuild = a.N
		// a refused update is a conflict: somebody else wrote the node first. a.Val says what they wrote.
		w.K.OnConflict = nil
		if writer := a.Val; writer != "" {
			w.K.OnConflict = func(stored *v1.Node) {
				switch writer {
				case "cordon":
					stored.Spec.Unschedulable = true
				case "annotate":
					if stored.Annotations == nil {
						stored.Annotations = map[string]string{}
					}
					stored.Annotations[ref.NoDeleteKey] = "added-by-owner"
				case "foreignTaint":
					stored.Spec.Taints = append(stored.Spec.Taints, v1.Taint{Key: "node.kubernetes.io/unreachable", Effect: v1.TaintEffectNoExecute})
				case "otherReplica":
					if _, ok := ref.HasTaint(stored, ref.TaintKey); !ok {
						stored.Spec.Taints = append(stored.Spec.Taints, v1.Taint{Key: ref.TaintKey, Value: fmt.Sprint(time.Now().Add(-10 * time.Minute).Unix()), Effect: v1.TaintEffectNoSchedule})
					}
				case "label":
					if stored.Labels == nil {
						stored.Labels = map[string]string{}
					}
					stored.Labels["touched-by"] = "someone"
				}
			}
		}
	case "fleetPlan":
		w.A.Fleet = *a.Fleet
	case "oddNode":
		w.applyOddNode(a)
	case "oddPod":
		w.applyOddPod(a)
	default:
		panic("unknown action " + a.Op)
	}
	return
}

func instanceIDOf(providerID string) string {
	parts := strings.Split(providerID, "/")
	return parts[len(parts)-1]
}

func removeTaint(ts []v1.Taint, key string) []v1.Taint {
	out := ts[:0:0]
	for _, t := range ts {
		if t.Key != key {
			out = append(out, t)
		}
	}
	return out
}

func (w *World) dropPodsOn(node string) {
	out := w.Pods[:0:0]
	for _, p := range w.Pods {
		if p.Spec.NodeName != node {
			out = append(out, p)
		}
	}
	w.Pods = out
}

// podGroup returns the (first) group a pod is attributed to, -1 if none.
func (w *World) podGroup(p *v1.Pod) int {
	for g := range w.Cfg.Groups {
		if w.PodInGroup(p, g) == ref.Yes {
			return g
		}
	}
	return -1
}

// PodInGroup applies the reference attribution for group g.
func (w *World) PodInGroup(p *v1.Pod, g int) ref.Tri {
	o := &w.Cfg.Groups[g].Opts
	if o.Name == controller.DefaultNodeGroup {
		return ref.PodInDefaultGroup(p)
	}
	if ref.PodInLabelGroup(p, o.LabelKey, o.LabelValue) {
		return ref.Yes
	}
	return ref.No
}

func (w *World) removeGroupPods(g int) {
	out := w.Pods[:0:0]
	for _, p := range w.Pods {
		if w.PodInGroup(p, g) != ref.Yes || ref.IsDaemonSetPod(p) {
			out = append(out, p)
		}
	}
	w.Pods = out
}

// GroupNodeNames returns the API node names of group g, sorted.
func (w *World) GroupNodeNames(g int) []string {
	var out []string
	for _, name := range w.K.SortedNames() {
		if w.GroupOfNode(w.K.Nodes[name]) == g {
			out = append(out, name)
		}
	}
	return out
}

// AllNodeNames returns every API node name, sorted.
func (w *World) AllNodeNames() []string { return w.K.SortedNames() }

// PodNames returns the names of live pods, sorted.
func (w *World) PodNames() []string {
	var out []string
	for _, p := range w.Pods {
		out = append(out, p.Name)
	}
	sort.Strings(out)
	return out
}

// Dump renders the recorded history for a replay file.
func (w *World) Dump() string {
	var b strings.Builder
	for i, a := range w.Log {
		fmt.Fprintf(&b, "%3d %s\n", i, a.String())
	}
	return b.String()
}
