package world

import (
	"fmt"
	"math"
	"sort"
	"strings"
	"time"

	"github.com/atlassian/escalator/pkg/controller"
	v1 "k8s.io/api/core/v1"
	"pgregory.net/rapid"

	"verifharness/ref"
	"verifharness/sim"
)

// Profile tunes the configuration and action generators for one property.
type Profile struct {
	Name         string
	MinGroups    int
	MaxGroups    int
	Dry          int // 0 never, 1 sometimes, 2 first group always dry (per-group or global)
	Fleet        int // 0 never, 1 sometimes, 2 always
	Auto         int // auto-discovery of min/max: 0 never, 1 sometimes
	Default      int // a group named default: 0 never, 1 sometimes
	Starve       int // scale_on_starve: 0 never, 1 sometimes
	MaxAge       int // max_node_age: 0 never, 1 sometimes
	MaxInit      int // max initial nodes per group
	SmallGraces  bool
	MaxBelowASG  int // 0: max_nodes drawn independently of the ASG max; 1: equal
	Weights      map[string]int
	Steps        int  // actions per history
	Stale        bool // allow scans without cache sync
	NoNegRates   bool
	DupTaints    bool     // external taints may add a second taint under the same key (different effect)
	OwnNodesOnly bool     // pods are bound only to nodes of the group they select (twin runs: keeps groups independent in the environment too)
	Big          bool     // one large group: tens to a hundred-odd nodes, bulk environment steps, short histories
	Linger       bool     // in half of the histories the groups keep listing instances as Terminating after an accepted termination
	HugeMax      bool     // large-group variant: the group's headroom may be 1001 / 1501 / 2001 nodes (one request crosses the 1000 mark)
	OddConfig    bool     // option values that validation does not look at may be odd (fleet time-out of 0, 1ns, unparsable)
	BulkWhat     []string // bulk steps this profile concentrates on (nil = all kinds)
	Latency      bool     // the Kubernetes API may answer slowly (virtual time passes inside a scan)
	FaultFocus   string   // "" = any call; "node-writes" = get/update failures aimed at early calls or single nodes
}

// DrawConfig draws a configuration the real validator accepts.
func DrawConfig(rt *rapid.T, p *Profile) Config {
	ng := rapid.IntRange(p.MinGroups, p.MaxGroups).Draw(rt, "groups")
	cfg := Config{}
	if p.Linger {
		cfg.Linger = rapid.Bool().Draw(rt, "linger")
	}
	if p.Dry == 1 {
		cfg.GlobalDry = rapid.IntRange(0, 9).Draw(rt, "globalDry") == 0
	}
	sharedKey := rapid.Bool().Draw(rt, "sharedLabelKey")
	defaultAt := -1
	if p.Default == 1 && rapid.IntRange(0, 2).Draw(rt, "hasDefault") == 0 {
		defaultAt = rapid.IntRange(0, ng-1).Draw(rt, "defaultAt")
	}
	for g := 0; g < ng; g++ {
		o := controller.NodeGroupOptions{
			Name:                   fmt.Sprintf("grp%d", g),
			LabelKey:               "pool",
			LabelValue:             fmt.Sprintf("v%d", g),
			CloudProviderGroupName: fmt.Sprintf("asg-%d", g),
		}
		if !sharedKey {
			o.LabelKey = fmt.Sprintf("pool%d", g)
		} else if g > 0 && rapid.IntRange(0, 3).Draw(rt, "relatedValue") == 0 {
			// label values that contain one another or differ in one character (build / build-large, v1.2 / v1x2)
			prev := cfg.Groups[g-1].Opts.LabelValue
			o.LabelValue = rapid.SampledFrom([]string{prev + "0", prev + "-large", "x" + prev, strings.Replace(prev, "v", "v.", 1), strings.ToUpper(prev)}).Draw(rt, "value")
			for _, q := range cfg.Groups {
				if q.Opts.LabelValue == o.LabelValue {
					o.LabelValue = fmt.Sprintf("v%d", g)
				}
			}
		}
		if g == defaultAt {
			o.Name = controller.DefaultNodeGroup
		} else if rapid.IntRange(0, 7).Draw(rt, "oddName") == 0 {
			// only the exact name "default" is the default group; these are ordinary labelled groups
			o.Name = rapid.SampledFrom([]string{"Default", "DEFAULT", "default-pool", "defaults", "default ", fmt.Sprintf("asg-%d", (g+1)%ng), fmt.Sprintf("asg-%d", (g+ng-1)%ng)}).Draw(rt, "name") + fmt.Sprint(g)[:0]
			for _, prev := range cfg.Groups {
				if prev.Opts.Name == o.Name {
					o.Name = fmt.Sprintf("grp%d", g)
				}
			}
		}
		// thresholds 0 < L < U < S
		var L, U, S int
		if rapid.Bool().Draw(rt, "niceThresholds") {
			L = rapid.SampledFrom([]int{1, 5, 10, 20, 30, 40}).Draw(rt, "lower")
			U = L + rapid.SampledFrom([]int{1, 5, 10, 20, 30}).Draw(rt, "upperGap")
			S = U + rapid.SampledFrom([]int{1, 5, 10, 20, 30, 50, 80}).Draw(rt, "scaleUpGap")
		} else {
			L = rapid.IntRange(1, 60).Draw(rt, "lower")
			U = L + rapid.IntRange(1, 40).Draw(rt, "upperGap")
			S = U + rapid.IntRange(1, 80).Draw(rt, "scaleUpGap")
		}
		o.TaintLowerCapacityThresholdPercent, o.TaintUpperCapacityThresholdPercent, o.ScaleUpThresholdPercent = L, U, S
		o.SlowNodeRemovalRate = rapid.IntRange(0, 4).Draw(rt, "slow")
		o.FastNodeRemovalRate = o.SlowNodeRemovalRate + rapid.IntRange(0, 6).Draw(rt, "fastGap")
		if !p.NoNegRates && rapid.IntRange(0, 11).Draw(rt, "hugeRates") == 0 { // "remove everything you may": rates far above any node count
			o.FastNodeRemovalRate = rapid.SampledFrom([]int{1000, math.MaxInt32, math.MaxInt64 - 1, math.MaxInt64}).Draw(rt, "fastHuge")
			if rapid.Bool().Draw(rt, "slowHugeToo") {
				o.SlowNodeRemovalRate = o.FastNodeRemovalRate
			}
		}
		var soft, hard, cd int
		if p.SmallGraces {
			soft = rapid.SampledFrom([]int{1, 2, 30, 60}).Draw(rt, "soft")
			hard = soft + rapid.SampledFrom([]int{1, 2, 60, 600}).Draw(rt, "hardGap")
			cd = rapid.SampledFrom([]int{1, 2, 45, 120}).Draw(rt, "cooldown")
		} else {
			soft = rapid.IntRange(1, 600).Draw(rt, "soft")
			hard = soft + rapid.IntRange(1, 3600).Draw(rt, "hardGap")
			cd = rapid.IntRange(1, 900).Draw(rt, "cooldown")
		}
		// spellings: whole seconds, or a sub-second remainder in either notation (1.9s, 1900ms, 2m0.5s)
		spell := func(sec int, label string) string {
			switch rapid.IntRange(0, 9).Draw(rt, label+"Spelling") {
			case 0:
				return fmt.Sprintf("%d.%ds", sec, rapid.SampledFrom([]int{5, 9, 25}).Draw(rt, label+"Frac"))
			case 1:
				return fmt.Sprintf("%dms", sec*1000+rapid.SampledFrom([]int{1, 500, 999}).Draw(rt, label+"Ms"))
			case 2:
				return (time.Duration(sec)*time.Second + 500*time.Millisecond).String()
			}
			return fmt.Sprintf("%ds", sec)
		}
		o.SoftDeleteGracePeriod = spell(soft, "soft")
		o.HardDeleteGracePeriod = spell(hard, "hard")
		o.ScaleUpCoolDownPeriod = spell(cd, "cd")
		o.TaintEffect = v1.TaintEffect(rapid.SampledFrom([]string{"", "NoSchedule", "NoExecute", "PreferNoSchedule"}).Draw(rt, "effect"))
		switch p.Dry {
		case 1:
			o.DryMode = rapid.IntRange(0, 5).Draw(rt, "dry") == 0
		case 2:
			if g == 0 {
				if rapid.Bool().Draw(rt, "dryViaGlobal") && ng == 1 {
					cfg.GlobalDry = true
				} else {
					o.DryMode = true
				}
			}
		}
		if p.Starve == 1 {
			o.ScaleOnStarve = rapid.IntRange(0, 3).Draw(rt, "starve") == 0
		}
		if p.MaxAge == 1 {
			o.MaxNodeAge = rapid.SampledFrom([]string{"", "", "", "0", "1h", "600s", "-1h", "-1s"}).Draw(rt, "maxNodeAge") // a negative duration passes validation and means "off", like 0
		}
		fleet := p.Fleet == 2 || (p.Fleet == 1 && rapid.IntRange(0, 3).Draw(rt, "fleet") == 0) || (p.Fleet == 3 && rapid.Bool().Draw(rt, "fleet"))
		if fleet {
			o.AWS.LaunchTemplateID = "lt-0123456789abcdef0"
			o.AWS.LaunchTemplateVersion = "1"
			o.AWS.FleetInstanceReadyTimeout = rapid.SampledFrom([]string{"", "10s", "1m", "5m"}).Draw(rt, "fleetTimeout")
			if p.OddConfig && rapid.Bool().Draw(rt, "oddFleetTimeout") { // the option is not validated: zero, tiny and unparsable values reach the provider
				o.AWS.FleetInstanceReadyTimeout = rapid.SampledFrom([]string{"0s", "1ns", "2ns", "90", "1ms", "999ms", "-5s"}).Draw(rt, "fleetTimeoutOdd")
			}
			o.AWS.Lifecycle = rapid.SampledFrom([]string{"", "on-demand", "spot"}).Draw(rt, "lifecycle")
			if rapid.Bool().Draw(rt, "overrides") {
				o.AWS.InstanceTypeOverrides = []string{"m5.large", "m5a.large"}[:rapid.IntRange(1, 2).Draw(rt, "nOverrides")]
			}
		}
		o.AWS.ResourceTagging = rapid.IntRange(0, 3).Draw(rt, "tagging") == 0

		gs := GroupSpec{Opts: o}
		gs.NodeCPU = rapid.SampledFrom([]int64{1000, 2000, 4000, 3900, 96000}).Draw(rt, "nodeCPU")
		gs.NodeMem = rapid.SampledFrom([]int64{1_000_000_000, 8_000_000_000, 4 << 30, 16_000_000_100}).Draw(rt, "nodeMem")
		// bounds
		asgMin := int64(rapid.IntRange(0, 4).Draw(rt, "asgMin"))
		gapLo, gapHi := 1, 14
		if p.Big && g == 0 {
			gapLo, gapHi = 20, 170
			if rapid.Bool().Draw(rt, "veryBig") {
				gapLo = 130
			}
			gs.NodeMem = rapid.SampledFrom([]int64{8_000_000_000, 16 << 30, 768 << 30}).Draw(rt, "bigNodeMem")
		}
		asgMax := asgMin + int64(rapid.IntRange(gapLo, gapHi).Draw(rt, "asgMaxGap"))
		gs.ASGMin, gs.ASGMax = asgMin, asgMax
		auto := (p.Auto == 1 && rapid.IntRange(0, 3).Draw(rt, "auto") == 0) || (p.Auto == 2 && rapid.Bool().Draw(rt, "auto"))
		if !auto {
			if p.MaxBelowASG == 1 {
				gs.Opts.MinNodes, gs.Opts.MaxNodes = int(asgMin), int(asgMax)
			} else {
				gs.Opts.MinNodes = rapid.IntRange(0, 5).Draw(rt, "minNodes")
				gs.Opts.MaxNodes = gs.Opts.MinNodes + rapid.IntRange(gapLo, gapHi).Draw(rt, "maxNodesGap")
			}
		}
		hi := int(asgMax)
		if hi > p.MaxInit {
			hi = p.MaxInit
		}
		lo := int(asgMin)
		if lo > hi {
			lo = hi
		}
		gs.InitNodes = rapid.IntRange(lo, hi).Draw(rt, "initNodes")
		if p.Big && g == 0 { // counts around the places where code tends to batch or pre-size
			if !auto && gs.Opts.MaxNodes < hi {
				hi = gs.Opts.MaxNodes
			}
			gs.InitNodes = rapid.SampledFrom([]int{9, 10, 16, 17, 20, 21, 22, 32, 33, 50, 64, 65, 99, 100, 101, 102, 120, 128, 129, 150}).Draw(rt, "bigInit")
			if gs.InitNodes > hi {
				gs.InitNodes = hi
			}
			if p.HugeMax && rapid.IntRange(0, 2).Draw(rt, "hugeMax") == 0 {
				gs.InitNodes = rapid.IntRange(lo, 12).Draw(rt, "hugeInit")
				gs.ASGMax = int64(gs.InitNodes + rapid.SampledFrom([]int{1001, 1501, 2001, 1000, 1003}).Draw(rt, "headroom"))
				if gs.Opts.AWS.LaunchTemplateID == "" && rapid.IntRange(0, 3).Draw(rt, "hugeFleet") > 0 {
					gs.Opts.AWS.LaunchTemplateID, gs.Opts.AWS.LaunchTemplateVersion = "lt-0123456789abcdef0", "1"
				}
				if !auto {
					gs.Opts.MaxNodes = int(gs.ASGMax) + rapid.SampledFrom([]int{0, 0, 1, 500}).Draw(rt, "maxNodesAbove")
				}
			}
		}
		if errs := controller.ValidateNodeGroup(gs.Opts); len(errs) > 0 {
			rt.Fatalf("generator bug: configuration rejected by the validator: %v (%+v)", errs, gs.Opts)
		}
		cfg.Groups = append(cfg.Groups, gs)
	}
	return cfg
}

// Init launches the initial nodes of every group with drawn ages.
func (w *World) Init(rt *rapid.T) {
	for g := range w.Cfg.Groups {
		n := w.Cfg.Groups[g].InitNodes
		if n == 0 {
			continue
		}
		ages := make([]int64, n)
		mode := rapid.IntRange(0, 3).Draw(rt, "ageMode")
		for i := range ages {
			switch mode {
			case 0:
				ages[i] = int64(rapid.IntRange(0, 100000).Draw(rt, "age"))
			case 1:
				ages[i] = int64(rapid.IntRange(0, 3).Draw(rt, "age")) * 100 // ties
			case 2:
				ages[i] = 5000 // all identical
			default:
				ages[i] = int64(i * 60) // listed newest first
			}
		}
		w.Apply(Action{Op: "launch", Group: g, N: n, Ages: ages})
	}
}

// weighted op choice
func drawOp(rt *rapid.T, weights map[string]int) string {
	var ops []string
	for op := range weights {
		ops = append(ops, op)
	}
	sort.Strings(ops)
	var bag []string
	for _, op := range ops {
		for i := 0; i < weights[op]; i++ {
			bag = append(bag, op)
		}
	}
	return rapid.SampledFrom(bag).Draw(rt, "op")
}

// UtilClasses are the utilisation classes a targeted pod set can be built for.
var UtilClasses = []string{"zero", "belowL", "eqL-1", "eqL", "eqL+1", "midLU", "eqU-1", "eqU", "eqU+1", "midUS", "eqS-1", "eqS", "eqS+1", "aboveS", "farAboveS"}

// drawTargetPods constructs a pod set for group g whose exact utilisation, given the
// current untainted uncordoned API nodes, falls into a drawn class.
func (w *World) drawTargetPods(rt *rapid.T, g int, forceClass ...string) (Action, string) {
	gs := &w.Cfg.Groups[g]
	o := &gs.Opts
	var untainted, all []string
	for _, name := range w.GroupNodeNames(g) {
		all = append(all, name)
		if ref.Classify(w.K.Nodes[name]) == ref.Untainted {
			untainted = append(untainted, name)
		}
	}
	U := int64(len(untainted))
	class := ""
	if len(forceClass) > 0 {
		class = rapid.SampledFrom(forceClass).Draw(rt, "utilClass")
	} else {
		class = rapid.SampledFrom(UtilClasses).Draw(rt, "utilClass")
	}
	L, Up, S := int64(o.TaintLowerCapacityThresholdPercent), int64(o.TaintUpperCapacityThresholdPercent), int64(o.ScaleUpThresholdPercent)
	pick := func(cap int64) int64 {
		eq := func(T int64) int64 { return T * cap / 100 }
		switch class {
		case "zero":
			return 0
		case "belowL":
			return eq(L) / 2
		case "eqL-1":
			return eq(L) - 1
		case "eqL":
			return eq(L)
		case "eqL+1":
			return eq(L) + 1
		case "midLU":
			return (eq(L) + eq(Up)) / 2
		case "eqU-1":
			return eq(Up) - 1
		case "eqU":
			return eq(Up)
		case "eqU+1":
			return eq(Up) + 1
		case "midUS":
			return (eq(Up) + eq(S)) / 2
		case "eqS-1":
			return eq(S) - 1
		case "eqS":
			return eq(S)
		case "eqS+1":
			return eq(S) + 1
		case "aboveS":
			return eq(S) + cap*int64(rapid.IntRange(1, 60).Draw(rt, "abovePct"))/100 + 1
		case "needHuge": // far more than any headroom: the request must land exactly on the bound
			if U == 0 {
				return eq(S) + 1
			}
			return S * (cap + 5000*(cap/U)) / 100
		case "need19", "need20", "need21", "need40", "need41", "need100", "need101": // exactly K more nodes bring utilisation down to the threshold
			var K int64
			fmt.Sscanf(class, "need%d", &K)
			if U == 0 {
				return eq(S) + 1
			}
			return S * (cap + K*(cap/U)) / 100
		default:
			return eq(S) * int64(rapid.IntRange(2, 5).Draw(rt, "factor"))
		}
	}
	capC, capM := U*gs.NodeCPU, U*gs.NodeMem
	if U == 0 {
		capC, capM = gs.NodeCPU*int64(rapid.IntRange(0, 3).Draw(rt, "zeroScale")), gs.NodeMem
	}
	drive := rapid.SampledFrom([]string{"cpu", "mem", "both"}).Draw(rt, "bound")
	reqC, reqM := pick(capC), pick(capM)
	lowFrac := int64(rapid.IntRange(0, 100).Draw(rt, "otherPct"))
	switch drive {
	case "cpu":
		reqM = reqM * lowFrac / 100
	case "mem":
		reqC = reqC * lowFrac / 100
	}
	if reqC < 0 {
		reqC = 0
	}
	if reqM < 0 {
		reqM = 0
	}
	k := rapid.IntRange(1, 5).Draw(rt, "nPods")
	var pods []PodSpec
	remC, remM := reqC, reqM
	for i := 0; i < k; i++ {
		c, m := remC, remM
		if i < k-1 {
			c = remC * int64(rapid.IntRange(0, 100).Draw(rt, "cutC")) / 100
			m = remM * int64(rapid.IntRange(0, 100).Draw(rt, "cutM")) / 100
		}
		remC -= c
		remM -= m
		ps := PodSpec{Group: g, Via: rapid.SampledFrom(labelVias).Draw(rt, "via"), CPU: c, Mem: m, Split: rapid.IntRange(1, 3).Draw(rt, "split")}
		if o.Name == controller.DefaultNodeGroup {
			ps.Via = "none"
			ps.EmptyAffinity = rapid.IntRange(0, 2).Draw(rt, "emptyAffinity") == 0
		}
		ps.Age = rapid.SampledFrom(podAges).Draw(rt, "podAge")
		ps.Terminating = rapid.SampledFrom([]int64{0, 0, 0, 0, 0, -90, 600}).Draw(rt, "terminating")
		ps.Tolerate = rapid.SampledFrom([]string{"", "", "", "", "all", "escalator"}).Draw(rt, "tolerate")
		if len(all) > 0 && rapid.IntRange(0, 3).Draw(rt, "bound?") > 0 {
			ps.Node = rapid.SampledFrom(all).Draw(rt, "podNode")
			ps.BoundPending = rapid.IntRange(0, 3).Draw(rt, "boundPending") == 0
		}
		pods = append(pods, ps)
	}
	return Action{Op: "setPods", Group: g, Pods: pods}, class + "/" + drive
}

// how a generated pod names its group
var labelVias = []string{"selector", "selector", "affinity", "affinityOr", "affinityAnd"}
var anyVias = []string{"selector", "selector", "affinity", "affinityOr", "affinityAnd", "none", "none"}

// AnnotationValues are the no-delete annotation values operators write (any non-empty value protects).
var AnnotationValues = []string{"true", "keep for debugging", "", "false", "0", `""`, "''", `"`, " ", "\"rca-1234\"", "no", "\t"}

// podAges: how long ago a generated pod was created (seconds); pods commonly predate their node.
var podAges = []int64{0, 0, 1, 45, 3600, 400 * 86400}

// timeTargets lists clock steps that land around grace-period and cool-down boundaries.
func (w *World) timeTargets() []time.Duration {
	now := time.Now()
	var out []time.Duration
	add := func(at time.Time) {
		for _, off := range []time.Duration{-time.Second, -time.Nanosecond, 0, time.Nanosecond, time.Second} {
			if d := at.Add(off).Sub(now); d > 0 && d < 400*24*time.Hour {
				out = append(out, d)
			}
		}
	}
	for _, name := range w.K.SortedNames() {
		n := w.K.Nodes[name]
		g := w.GroupOfNode(n)
		if g < 0 {
			continue
		}
		o := &w.Cfg.Groups[g].Opts
		if ts, ok := ref.TaintTime(n); ok {
			add(ts.Add(Dur(o.SoftDeleteGracePeriod)))
			add(ts.Add(Dur(o.HardDeleteGracePeriod)))
		}
		if age := Dur(o.MaxNodeAge); age > 0 {
			add(n.CreationTimestamp.Add(age))
		}
	}
	var gs []int
	for g := range w.LockT0 {
		gs = append(gs, g)
	}
	sort.Ints(gs)
	for _, g := range gs {
		add(w.LockT0[g].Add(Dur(w.Cfg.Groups[g].Opts.ScaleUpCoolDownPeriod)))
	}
	return out
}

// TaintValueClasses are the external escalator-taint value classes.
var TaintValueClasses = []string{"past", "longpast", "future", "garbage", "empty", "negative", "huge", "float", "spaces", "softEdge", "hardEdge", "softEdge", "hardEdge"}

// DrawAction draws one environment action (or a scan) for the current state.
func (w *World) DrawAction(rt *rapid.T, p *Profile) (Action, string) {
	op := drawOp(rt, p.Weights)
	ng := len(w.Cfg.Groups)
	g := 0
	if ng > 1 {
		g = rapid.IntRange(0, ng-1).Draw(rt, "g")
	}
	nodes := w.AllNodeNames()
	needNode := func() (string, bool) {
		if len(nodes) == 0 {
			return "", false
		}
		return rapid.SampledFrom(nodes).Draw(rt, "node"), true
	}
	switch op {
	case "scan":
		sync := true
		if p.Stale {
			sync = rapid.IntRange(0, 6).Draw(rt, "sync") > 0
		}
		var order []string
		if len(nodes) > 1 && rapid.Bool().Draw(rt, "shuffle") {
			order = rapid.Permutation(nodes).Draw(rt, "order")
		}
		return Action{Op: "scan", Flag: sync, Order: order}, "scan"
	case "targetUtil":
		if asg := w.ASG(g); p.Big && asg != nil && asg.Max-asg.Desired > 1000 && rapid.Bool().Draw(rt, "hugeNeed") {
			return w.drawTargetPods(rt, g, "needHuge")
		}
		if p.Big && rapid.IntRange(0, 2).Draw(rt, "exactNeed") == 0 {
			return w.drawTargetPods(rt, g, "need19", "need20", "need21", "need40", "need41", "need100", "need101", "needHuge")
		}
		return w.drawTargetPods(rt, g)
	case "advance":
		tt := w.timeTargets()
		if len(tt) > 0 && rapid.IntRange(0, 3).Draw(rt, "targeted") > 0 {
			return Action{Op: "advance", D: rapid.SampledFrom(tt).Draw(rt, "d")}, "advance/targeted"
		}
		d := rapid.SampledFrom([]time.Duration{time.Second, 30 * time.Second, 61 * time.Second, 10 * time.Minute, 2 * time.Hour,
			250 * time.Millisecond, 750 * time.Millisecond, 1999 * time.Millisecond, 999999 * time.Microsecond}).Draw(rt, "d")
		return Action{Op: "advance", D: d}, "advance/free"
	case "addPods":
		n := rapid.IntRange(1, 3).Draw(rt, "n")
		var pods []PodSpec
		for i := 0; i < n; i++ {
			ps := PodSpec{Group: g, Via: rapid.SampledFrom(anyVias).Draw(rt, "via"),
				CPU: int64(rapid.IntRange(0, 3000).Draw(rt, "cpu")), Mem: int64(rapid.IntRange(0, 4000).Draw(rt, "memMB")) * 1_000_000,
				Daemon: rapid.IntRange(0, 4).Draw(rt, "daemon") == 0, Split: rapid.IntRange(1, 2).Draw(rt, "split")}
			ps.Age = rapid.SampledFrom(podAges).Draw(rt, "podAge")
			ps.EmptyAffinity = ps.Via == "none" && rapid.IntRange(0, 2).Draw(rt, "emptyAffinity") == 0
			ps.Terminating = rapid.SampledFrom([]int64{0, 0, 0, 0, -90, -1, 25, 600}).Draw(rt, "terminating")
			ps.Tolerate = rapid.SampledFrom([]string{"", "", "", "all", "escalator"}).Draw(rt, "tolerate")
			ps.Static = rapid.IntRange(0, 6).Draw(rt, "static") == 0 // a mirror pod may carry a selector: in a labelled group it counts like any pod
			if ps.Via != "none" && rapid.IntRange(0, 3).Draw(rt, "emptyAffinityOnSelector") == 0 {
				ps.EmptyAffinity = true
			}
			if rapid.IntRange(0, 5).Draw(rt, "init") == 0 {
				ps.InitCPU, ps.InitMem = int64(rapid.IntRange(0, 5000).Draw(rt, "initCPU")), int64(rapid.IntRange(0, 5000).Draw(rt, "initMemMB"))*1_000_000
				if rapid.Bool().Draw(rt, "secondInit") { // the CPU peak and the memory peak sit in different init containers
					ps.Init2CPU, ps.Init2Mem = ps.InitCPU/2, ps.InitMem*3+1_000_000
				}
			}
			if rapid.IntRange(0, 7).Draw(rt, "overhead") == 0 {
				ps.OverCPU, ps.OverMem = 10, 1_000_000
			}
			if ng > 1 && ps.Via == "selector" && rapid.IntRange(0, 2).Draw(rt, "cross") == 0 {
				og := (g + 1 + rapid.IntRange(0, ng-2).Draw(rt, "crossGroup")) % ng
				ps.Cross = fmt.Sprintf("%s:%d", rapid.SampledFrom([]string{"notin", "otherkey", "exists"}).Draw(rt, "crossKind"), og)
				ps.CPU += w.Cfg.Groups[og].NodeCPU * int64(rapid.IntRange(0, 3).Draw(rt, "crossCPU"))
			}
			cands := nodes
			if p.OwnNodesOnly {
				// bind only to nodes of the group the pod will be attributed to
				tg := g
				if ps.Via == "none" {
					tg = -1
					for gi := range w.Cfg.Groups {
						if w.Cfg.Groups[gi].Opts.Name == controller.DefaultNodeGroup {
							tg = gi
						}
					}
				} else if w.Cfg.Groups[g].Opts.Name == controller.DefaultNodeGroup {
					tg = -1 // a selector/affinity pod never belongs to the default group
					for gi := range w.Cfg.Groups {
						if gi != g && w.Cfg.Groups[gi].Opts.LabelKey == w.Cfg.Groups[g].Opts.LabelKey && w.Cfg.Groups[gi].Opts.LabelValue == w.Cfg.Groups[g].Opts.LabelValue {
							tg = gi
						}
					}
				}
				cands = nil
				if tg >= 0 {
					cands = w.GroupNodeNames(tg)
				}
			}
			if len(cands) > 0 && rapid.Bool().Draw(rt, "bound") {
				ps.Node = rapid.SampledFrom(cands).Draw(rt, "podNode")
				ps.BoundPending = rapid.IntRange(0, 3).Draw(rt, "boundPending") == 0
			}
			pods = append(pods, ps)
		}
		return Action{Op: "addPods", Group: g, Pods: pods}, "addPods"
	case "finishPods":
		names := w.PodNames()
		if len(names) == 0 {
			return Action{Op: "advance", D: time.Second}, "advance/free"
		}
		k := rapid.IntRange(1, minInt(3, len(names))).Draw(rt, "k")
		return Action{Op: "finishPods", Names: rapid.Permutation(names).Draw(rt, "pods")[:k]}, "finishPods"
	case "replacePod": // a pod is deleted and re-created under the same name with a different shape
		names := w.PodNames()
		if len(names) > 0 {
			ng2 := g
			if ng > 1 {
				ng2 = rapid.IntRange(0, ng-1).Draw(rt, "newGroup")
			}
			ps := PodSpec{Group: ng2, Via: rapid.SampledFrom(anyVias).Draw(rt, "via"),
				CPU: int64(rapid.IntRange(0, 3000).Draw(rt, "cpu")), Mem: int64(rapid.IntRange(0, 4000).Draw(rt, "memMB")) * 1_000_000,
				Daemon: rapid.IntRange(0, 5).Draw(rt, "daemon") == 0, Static: rapid.IntRange(0, 5).Draw(rt, "static") == 0}
			return Action{Op: "replacePod", Names: []string{rapid.SampledFrom(names).Draw(rt, "pod")}, Pods: []PodSpec{ps}}, "replacePod"
		}
	case "retargetPod": // scheduling-gated pod admitted later: selector / affinity set in place
		names := w.PodNames()
		if len(names) > 0 {
			ng2 := g
			if ng > 1 {
				ng2 = rapid.IntRange(0, ng-1).Draw(rt, "newGroup")
			}
			ps := PodSpec{Group: ng2, Via: rapid.SampledFrom(anyVias).Draw(rt, "via"), CPU: 1, Mem: 1}
			return Action{Op: "retargetPod", Names: []string{rapid.SampledFrom(names).Draw(rt, "pod")}, Pods: []PodSpec{ps}}, "retargetPod"
		}
	case "resizeNode": // a node of a different instance type (mixed groups)
		if n, ok := needNode(); ok {
			return Action{Op: "resizeNode", Node: n, N: rapid.SampledFrom([]int{2, 3, 4}).Draw(rt, "factor")}, "resizeNode"
		}
	case "clearNode":
		if n, ok := needNode(); ok {
			return Action{Op: "clearNode", Node: n}, "clearNode"
		}
	case "schedule":
		return Action{Op: "schedule", Group: g, N: rapid.IntRange(1, 5).Draw(rt, "n"), M: rapid.IntRange(0, 7).Draw(rt, "offset")}, "schedule"
	case "launch":
		asg := w.ASG(g)
		room := int(asg.Max) - len(asg.Instances)
		if room <= 0 {
			break
		}
		n := rapid.IntRange(1, minInt(3, room)).Draw(rt, "n")
		grow := int64(len(asg.Instances)+n) > asg.Desired
		age := int64(0)
		if rapid.Bool().Draw(rt, "aged") {
			age = int64(rapid.IntRange(0, 600).Draw(rt, "age"))
		}
		return Action{Op: "launch", Group: g, N: n, Flag: grow, Ages: []int64{age}}, "launch"
	case "reconcile":
		return Action{Op: "reconcile", Group: g}, "reconcile"
	case "register":
		return Action{Op: "register", Group: g}, "register"
	case "gcNodes":
		return Action{Op: "gcNodes"}, "gcNodes"
	case "cordon":
		if n, ok := needNode(); ok {
			return Action{Op: "cordon", Node: n, Flag: !w.K.Nodes[n].Spec.Unschedulable || rapid.IntRange(0, 3).Draw(rt, "again") == 0}, "cordon"
		}
	case "taintExt":
		if n, ok := needNode(); ok {
			key := ref.TaintKey
			if rapid.IntRange(0, 3).Draw(rt, "force") == 0 {
				key = ref.ForceTaintKey
			}
			class := rapid.SampledFrom(TaintValueClasses).Draw(rt, "valueClass")
			now := time.Now().Unix()
			var val string
			switch class {
			case "past":
				val = fmt.Sprint(now - int64(rapid.IntRange(0, 4000).Draw(rt, "ago")))
			case "longpast":
				val = fmt.Sprint(now - int64(rapid.IntRange(4000, 10_000_000).Draw(rt, "ago")))
			case "future":
				val = fmt.Sprint(now + int64(rapid.IntRange(1, 100000).Draw(rt, "ahead")))
			case "garbage":
				val = rapid.SampledFrom([]string{"abc", "12x", "0x10", "١٢٣", "1e3", "true"}).Draw(rt, "garbage")
			case "empty":
				val = ""
			case "negative":
				val = fmt.Sprint(-int64(rapid.IntRange(1, 1_000_000).Draw(rt, "neg")))
			case "huge":
				val = rapid.SampledFrom([]string{"4611686018427387904", "9223372036854775807", "9223372036854775808", "-9223372036854775808", "99999999999999999999"}).Draw(rt, "huge")
			case "softEdge", "hardEdge": // tainted exactly one grace period ago, +-1 s
				d := time.Duration(0)
				if gi := w.GroupOfNode(w.K.Nodes[n]); gi >= 0 {
					d = Dur(w.Cfg.Groups[gi].Opts.SoftDeleteGracePeriod)
					if class == "hardEdge" {
						d = Dur(w.Cfg.Groups[gi].Opts.HardDeleteGracePeriod)
					}
				}
				val = fmt.Sprint(now - int64(d/time.Second) + int64(rapid.IntRange(-1, 1).Draw(rt, "edgeOffset")))
			case "float":
				val = fmt.Sprintf("%d.5", now-100)
			default:
				val = fmt.Sprintf(" %d", now-100)
			}
			eff := rapid.SampledFrom([]string{"NoSchedule", "NoExecute", "PreferNoSchedule"}).Draw(rt, "effect")
			keep := p.DupTaints && rapid.IntRange(0, 3).Draw(rt, "keepExisting") == 0
			return Action{Op: "taint", Node: n, Key: key, Val: val, Effect: eff, Flag: keep}, "taintExt/" + map[bool]string{true: "force", false: class}[key == ref.ForceTaintKey]
		}
	case "foreignTaint":
		if n, ok := needNode(); ok {
			key := rapid.SampledFrom([]string{"node.kubernetes.io/unreachable", "dedicated", "atlassian.com/escalatorx", "atlassian.com/escalator-forc", "atlassian.com/escalator-canary", "atlassian.com/escalator.io/hold", "escalator"}).Draw(rt, "key")
			return Action{Op: "taint", Node: n, Key: key, Val: rapid.SampledFrom([]string{"", "x", "123"}).Draw(rt, "val"), Effect: "NoSchedule"}, "foreignTaint"
		}
	case "removeTaint":
		if n, ok := needNode(); ok {
			key := rapid.SampledFrom([]string{ref.TaintKey, ref.ForceTaintKey}).Draw(rt, "key")
			return Action{Op: "untaint", Node: n, Key: key}, "removeTaint"
		}
	case "annotate":
		if n, ok := needNode(); ok {
			if rapid.IntRange(0, 3).Draw(rt, "remove") == 0 {
				return Action{Op: "annotate", Node: n, Flag: true}, "annotate/remove"
			}
			val := rapid.SampledFrom(AnnotationValues).Draw(rt, "val")
			return Action{Op: "annotate", Node: n, Val: val}, "annotate/" + map[bool]string{true: "empty", false: "set"}[val == ""]
		}
	case "asgEdit":
		asg := w.ASG(g)
		min := rapid.IntRange(0, 5).Draw(rt, "min")
		max := min + rapid.IntRange(0, 14).Draw(rt, "maxGap") // gap 0: an ASG pinned at min == max
		if max == 0 {
			max = 1
		}
		_ = asg
		return Action{Op: "asgEdit", Group: g, N: min, M: max}, "asgEdit"
	case "asgDesired":
		asg := w.ASG(g)
		return Action{Op: "asgDesired", Group: g, N: rapid.IntRange(int(asg.Min), int(asg.Max)).Draw(rt, "desired")}, "asgDesired"
	case "detach":
		if n, ok := needNode(); ok {
			return Action{Op: "detach", Node: n, Flag: rapid.Bool().Draw(rt, "decrement")}, "detach"
		}
	case "killNode":
		if n, ok := needNode(); ok {
			return Action{Op: "killNode", Node: n}, "killNode"
		}
	case "restart":
		return Action{Op: "restart"}, "restart"
	case "clearPods":
		return Action{Op: "clearPods", Group: g}, "clearPods"
	case "zeroOut":
		return Action{Op: "zeroOut", Group: g}, "zeroOut"
	case "lagLookup": // a scale-up, the new nodes register, and the first scan after the cool-down looks them up in the cloud - which answers oddly for one of them
		o := &w.Cfg.Groups[g].Opts
		if cd := Dur(o.ScaleUpCoolDownPeriod); cd > 0 {
			tp, _ := w.drawTargetPods(rt, g, "aboveS", "farAboveS")
			f := sim.Fault{Kind: sim.ADescribeInst, Nth: rapid.IntRange(0, 2).Draw(rt, "nth"), Count: rapid.SampledFrom([]int{1, 1, 2, 5}).Draw(rt, "count"),
				Code: rapid.SampledFrom([]string{"InvalidInstanceID.NotFound", "InvalidInstanceID.NotFound", "InvalidInstanceID.Malformed", "", "Throttling", "shape:no-reservation", "shape:empty-reservation"}).Draw(rt, "code")}
			seq := []Action{tp, {Op: "scan", Flag: true}, {Op: "reconcile", Group: g}, {Op: "register", Group: g},
				{Op: "advance", D: cd + time.Second}, {Op: "fault", Faults: []sim.Fault{f}}, {Op: "scan", Flag: true}, {Op: "scan", Flag: true}}
			// ... and later the group drops below its minimum (the cloud group's minimum is raised, or the older nodes are
			// cordoned), recovers, and the scan after that cool-down looks the same nodes up again
			if rapid.IntRange(0, 2).Draw(rt, "dipLater") > 0 {
				if asg := w.ASG(g); o.MinNodes == 0 && o.MaxNodes == 0 && asg != nil {
					seq = append(seq, Action{Op: "asgEdit", Group: g, N: int(asg.Max), M: int(asg.Max)})
				} else {
					for _, n := range w.GroupNodeNames(g) {
						seq = append(seq, Action{Op: "cordon", Node: n, Flag: true})
					}
				}
				seq = append(seq, Action{Op: "scan", Flag: true}, Action{Op: "reconcile", Group: g}, Action{Op: "register", Group: g},
					Action{Op: "advance", D: cd + time.Second}, Action{Op: "scan", Flag: true})
			}
			return Action{Op: "seq", Seq: seq}, "lagLookup"
		}
	case "goneTaintedBelowMin": // inside a cool-down the group drops below its minimum with tainted nodes around; one of them is deleted before the node cache notices; the first scan after the cool-down recovers
		o := &w.Cfg.Groups[g].Opts
		var untainted []string
		for _, n := range w.GroupNodeNames(g) {
			if ref.Classify(w.K.Nodes[n]) == ref.Untainted {
				untainted = append(untainted, n)
			}
		}
		floor := maxInt(o.MinNodes, int(w.ASG(g).Min))
		if cd := Dur(o.ScaleUpCoolDownPeriod); cd > 0 && floor > 0 && len(untainted) >= floor {
			k := len(untainted) - floor + rapid.IntRange(1, 2).Draw(rt, "below")
			if k > len(untainted) {
				k = len(untainted)
			}
			picked := untainted[len(untainted)-k:]
			tp, _ := w.drawTargetPods(rt, g, "aboveS", "farAboveS")
			seq := []Action{tp, {Op: "scan", Flag: true}}
			for _, n := range picked {
				seq = append(seq, Action{Op: "taint", Node: n, Key: ref.TaintKey, Val: fmt.Sprint(time.Now().Unix()), Effect: "NoSchedule", Flag: true})
			}
			seq = append(seq, Action{Op: "scan", Flag: true}, Action{Op: "killNode", Node: rapid.SampledFrom(picked).Draw(rt, "gone")},
				Action{Op: "advance", D: cd + time.Second}, Action{Op: "scan", Flag: false}, Action{Op: "scan", Flag: true})
			return Action{Op: "seq", Seq: seq}, "goneTaintedBelowMin"
		}
	case "oldestWriteFails": // utilisation calls for tainting while the API server refuses the read or the write of one of the oldest candidates
		var untainted []string
		for _, n := range w.GroupNodeNames(g) {
			if ref.Classify(w.K.Nodes[n]) == ref.Untainted {
				untainted = append(untainted, n)
			}
		}
		if len(untainted) >= 2 {
			sort.SliceStable(untainted, func(i, j int) bool {
				return w.K.Nodes[untainted[i]].CreationTimestamp.Time.Before(w.K.Nodes[untainted[j]].CreationTimestamp.Time)
			})
			tp, _ := w.drawTargetPods(rt, g, "zero", "belowL", "midLU", "eqL")
			x := untainted[rapid.IntRange(0, 1).Draw(rt, "whichOldest")]
			kind := rapid.SampledFrom([]string{sim.KGet, sim.KUpdate}).Draw(rt, "kind")
			return Action{Op: "seq", Seq: []Action{tp, {Op: "fault", Faults: []sim.Fault{{Kind: kind, Nth: -1, Node: x}}}, {Op: "scan", Flag: true}}}, "oldestWriteFails"
		}
	case "resizeThenDescribeFails": // the cloud accepts a resize and a describe call right after it fails; the group is busy again moments later
		tp, _ := w.drawTargetPods(rt, g, "aboveS", "farAboveS")
		tp2, _ := w.drawTargetPods(rt, g, "aboveS", "farAboveS", "zero")
		f := sim.Fault{Kind: sim.ADescribeASG, Nth: rapid.IntRange(1, 3).Draw(rt, "nth"), Count: rapid.SampledFrom([]int{1, 1, 2}).Draw(rt, "count"), Code: rapid.SampledFrom(cloudErrorCodes).Draw(rt, "code")}
		return Action{Op: "seq", Seq: []Action{tp, {Op: "fault", Faults: []sim.Fault{f}}, {Op: "scan", Flag: true},
			{Op: "advance", D: time.Second}, tp2, {Op: "scan", Flag: true}}}, "resizeThenDescribeFails"
	case "bigFleetAttachFails": // a fleet of more than one attach batch; a later AttachInstances call fails
		if w.Cfg.IsFleet(g) {
			tp, _ := w.drawTargetPods(rt, g, "need21", "need40", "need41")
			f := sim.Fault{Kind: sim.AAttach, Nth: rapid.IntRange(1, 2).Draw(rt, "nth"), Count: 1, Code: rapid.SampledFrom(cloudErrorCodes).Draw(rt, "code")}
			return Action{Op: "seq", Seq: []Action{tp, {Op: "fault", Faults: []sim.Fault{f}}, {Op: "scan", Flag: true}, {Op: "scan", Flag: true}}}, "bigFleetAttachFails"
		}
	case "bumpAfterRefresh": // a scale-up while somebody else raises the cloud group's desired capacity between escalator's read and its write
		tp, _ := w.drawTargetPods(rt, g, "aboveS", "farAboveS", "eqS+1")
		return Action{Op: "seq", Seq: []Action{tp, {Op: "bumpAfterRefresh", Group: g, N: rapid.IntRange(1, 4).Draw(rt, "by")}, {Op: "scan", Flag: true},
			{Op: "reconcile", Group: g}, {Op: "register", Group: g}}}, "bumpAfterRefresh"
	case "rebuildThenExternalResize": // a failed refresh makes escalator rebuild its provider; later somebody else resizes the cloud group; then the group needs capacity
		asg := w.ASG(g)
		if room := int(asg.Max - asg.Desired); room >= 2 {
			tp, _ := w.drawTargetPods(rt, g, "eqS+1", "aboveS", "farAboveS")
			return Action{Op: "seq", Seq: []Action{
				{Op: "fault", Faults: []sim.Fault{{Kind: sim.ADescribeASG, Nth: 0, Count: 1, Code: rapid.SampledFrom(cloudErrorCodes).Draw(rt, "code")}}}, {Op: "scan", Flag: true},
				{Op: "asgDesired", Group: g, N: int(asg.Desired) + rapid.IntRange(1, room-1).Draw(rt, "raisedBy")},
				tp, {Op: "scan", Flag: true}}}, "rebuildThenExternalResize"
		}
	case "overMaxLateBind": // a freshly tainted empty node is seen by an in-range scan; a tolerating pod lands on it; the soft grace passes; the group ends up above its maximum
		o := &w.Cfg.Groups[g].Opts
		names := w.GroupNodeNames(g)
		soft, hard := Dur(o.SoftDeleteGracePeriod), Dur(o.HardDeleteGracePeriod)
		if len(names) >= 2 && soft > 0 && hard > soft+2*time.Second {
			x := rapid.SampledFrom(names).Draw(rt, "node")
			via := "selector"
			if o.Name == controller.DefaultNodeGroup {
				via = "none"
			}
			seq := []Action{{Op: "clearNode", Node: x}, {Op: "taint", Node: x, Key: ref.TaintKey, Val: fmt.Sprint(time.Now().Unix()), Effect: "NoSchedule"}, {Op: "scan", Flag: true},
				{Op: "addPods", Group: g, Pods: []PodSpec{{Group: g, Via: via, CPU: 100, Mem: 1_000_000, Node: x, Tolerate: "all"}}},
				{Op: "advance", D: soft + time.Second}}
			asg := w.ASG(g)
			if o.MinNodes == 0 && o.MaxNodes == 0 { // auto-discovered limits: the cloud group's maximum is lowered below the node count
				seq = append(seq, Action{Op: "asgEdit", Group: g, N: minInt(int(asg.Min), len(names)-1), M: len(names) - 1})
			} else if extra := o.MaxNodes - len(names) + 1; extra >= 1 && extra <= 6 && int(asg.Max)-len(asg.Instances) >= extra { // somebody launches nodes past max_nodes
				seq = append(seq, Action{Op: "launch", Group: g, N: extra, Ages: []int64{0}, Flag: true})
			}
			seq = append(seq, Action{Op: "scan", Flag: true})
			return Action{Op: "seq", Seq: seq}, "overMaxLateBind"
		}
	case "untaintFailsThenBusy": // a scale-up reuses tainted nodes, one untaint write fails, the cloud accepts the rest; the group is busy again moments later
		names := w.GroupNodeNames(g)
		if len(names) >= 3 {
			k := rapid.IntRange(1, 2).Draw(rt, "tainted")
			var seq []Action
			for _, n := range names[len(names)-k:] {
				seq = append(seq, Action{Op: "taint", Node: n, Key: ref.TaintKey, Val: fmt.Sprint(time.Now().Unix()), Effect: "NoSchedule"})
			}
			bad := names[len(names)-1]
			tp, _ := w.drawTargetPods(rt, g, "farAboveS")
			tp2, _ := w.drawTargetPods(rt, g, "farAboveS", "zero")
			kind := rapid.SampledFrom([]string{sim.KGet, sim.KUpdate}).Draw(rt, "kind")
			seq = append(seq, tp, Action{Op: "fault", Faults: []sim.Fault{{Kind: kind, Nth: -1, Node: bad}}}, Action{Op: "scan", Flag: true},
				Action{Op: "advance", D: time.Second}, tp2, Action{Op: "scan", Flag: true})
			return Action{Op: "seq", Seq: seq}, "untaintFailsThenBusy"
		}
	case "goneUntaintedThenIdle": // one of the oldest nodes is deleted behind the node cache's back; the pod cache is current and shows an idle group
		var untainted []string
		for _, n := range w.GroupNodeNames(g) {
			if ref.Classify(w.K.Nodes[n]) == ref.Untainted {
				untainted = append(untainted, n)
			}
		}
		if len(untainted) >= 3 {
			sort.SliceStable(untainted, func(i, j int) bool {
				return w.K.Nodes[untainted[i]].CreationTimestamp.Time.Before(w.K.Nodes[untainted[j]].CreationTimestamp.Time)
			})
			x := untainted[rapid.IntRange(0, 1).Draw(rt, "whichOldest")]
			tp, _ := w.drawTargetPods(rt, g, "zero", "belowL", "midLU")
			return Action{Op: "seq", Seq: []Action{{Op: "scan", Flag: true}, {Op: "killNode", Node: x}, tp, {Op: "scan", Val: "pods"}}}, "goneUntaintedThenIdle"
		}
	case "rebuildThenReapNewNode": // a failed refresh makes escalator rebuild its provider; later a new node joins the group and is force-removed
		return Action{Op: "seq", Seq: []Action{
			{Op: "fault", Faults: []sim.Fault{{Kind: sim.ADescribeASG, Nth: 0, Count: 1, Code: rapid.SampledFrom(cloudErrorCodes).Draw(rt, "code")}}}, {Op: "scan", Flag: true},
			{Op: "launch", Group: g, N: 1, Ages: []int64{0}, Flag: true}, {Op: "scan", Flag: true},
			{Op: "drainAndForce", Group: g, Names: []string{"@newest"}}, {Op: "scan", Flag: true}}}, "rebuildThenReapNewNode"
	case "minRaisedWhileRefreshFails": // somebody raises the cloud group's minimum; the next scan's refresh is throttled once; the group is idle
		asg := w.ASG(g)
		if n := int64(len(w.GroupNodeNames(g))); n >= 2 && asg.Min < n && n <= asg.Max {
			tp, _ := w.drawTargetPods(rt, g, "zero", "belowL")
			newMin := rapid.Int64Range(asg.Min+1, n).Draw(rt, "newMin")
			return Action{Op: "seq", Seq: []Action{{Op: "scan", Flag: true}, {Op: "asgEdit", Group: g, N: int(newMin), M: int(asg.Max)}, tp,
				{Op: "fault", Faults: []sim.Fault{{Kind: sim.ADescribeASG, Nth: 0, Count: 1, Code: rapid.SampledFrom([]string{"Throttling", "RequestLimitExceeded", "ServiceUnavailable", ""}).Draw(rt, "code")}}},
				{Op: "scan", Flag: true}, {Op: "scan", Flag: true}}}, "minRaisedWhileRefreshFails"
		}
	case "fracAllocStarve": // nodes whose allocatable memory is a fractional binary-SI quantity run pods; two scans look at them
		names := w.GroupNodeNames(g)
		if len(names) > 0 {
			via := "selector"
			if w.Cfg.Groups[g].Opts.Name == controller.DefaultNodeGroup {
				via = "none"
			}
			var seq []Action
			k := rapid.IntRange(1, minInt(3, len(names))).Draw(rt, "k")
			for _, n := range names[:k] {
				seq = append(seq, Action{Op: "fracAlloc", Node: n, Val: rapid.SampledFrom([]string{"7.5Gi", "15.5Gi", "1.5Gi", "0.5Ti", "3.75Gi"}).Draw(rt, "memory")},
					Action{Op: "addPods", Group: g, Pods: []PodSpec{{Group: g, Via: via, CPU: 100, Mem: int64(rapid.IntRange(1, 900).Draw(rt, "memMB")) * 1_000_000, Node: n}}})
			}
			seq = append(seq, Action{Op: "addPods", Group: g, Pods: []PodSpec{{Group: g, Via: via, CPU: 100, Mem: 64_000_000}}}, Action{Op: "scan", Flag: true}, Action{Op: "scan", Flag: true})
			return Action{Op: "seq", Seq: seq}, "fracAllocStarve"
		}
	case "onlyCordonedLeft": // every node still in service is cordoned; some others may be on their way out; pods wait (or not)
		names := w.GroupNodeNames(g)
		if len(names) > 0 && len(names) <= 12 {
			tp, _ := w.drawTargetPods(rt, g, "zero", "aboveS", "aboveS", "farAboveS")
			var seq []Action
			for i, n := range names {
				if ref.Classify(w.K.Nodes[n]) != ref.Untainted {
					continue
				}
				if i > 0 && rapid.IntRange(0, 3).Draw(rt, "taintInstead") == 0 {
					seq = append(seq, Action{Op: "taint", Node: n, Key: ref.TaintKey, Val: fmt.Sprint(time.Now().Unix()), Effect: "NoSchedule", Flag: true})
				} else {
					seq = append(seq, Action{Op: "cordon", Node: n, Flag: true})
				}
			}
			seq = append(seq, tp, Action{Op: "scan", Flag: true}, Action{Op: "scan", Flag: true})
			return Action{Op: "seq", Seq: seq}, "onlyCordonedLeft"
		}
	case "relabel": // a node is moved out of its pool by label (and later back), the object and its name stay
		names := w.GroupNodeNames(g)
		o := &w.Cfg.Groups[g].Opts
		if len(names) > 0 {
			n := rapid.SampledFrom(names).Draw(rt, "node")
			off := Action{Op: "relabel", Node: n, Key: o.LabelKey, Val: rapid.SampledFrom([]string{"zzz-retired", "", "zzz-" + o.LabelValue}).Draw(rt, "newValue"), Flag: rapid.IntRange(0, 3).Draw(rt, "dropKey") == 0}
			seq := []Action{{Op: "scan", Flag: true}, off, {Op: "scan", Flag: true}}
			if rapid.Bool().Draw(rt, "andBack") {
				seq = append(seq, Action{Op: "relabel", Node: n, Key: o.LabelKey, Val: o.LabelValue}, Action{Op: "scan", Flag: true})
			}
			return Action{Op: "seq", Seq: seq}, "relabel"
		}
	case "bulk", "bulkAnd": // the same environment change on many nodes of the group at once (bulkAnd: plus one node treated differently, then a scan)
		names := w.GroupNodeNames(g)
		if len(names) > 0 {
			o := &w.Cfg.Groups[g].Opts
			n := len(names)
			k := rapid.SampledFrom([]int{0, 0, 8, 9, 10, 20, 21, 22, 50, 99, 100, 101, 102, 120, n - 1, n / 2, n - o.MinNodes - 1, n - 2}).Draw(rt, "count") // 0 = all
			if k < 0 {
				k = 0
			}
			// as many as the group can lose in one go while staying at or above both minimums
			if room := n - maxInt(o.MinNodes, int(w.ASG(g).Min)); room > 100 && rapid.IntRange(0, 2).Draw(rt, "mass") == 0 {
				k = rapid.IntRange(101, room).Draw(rt, "massCount")
			}
			kinds := []string{"taint", "taint+drain", "taint+annotate+drain", "annotate", "force+drain", "force", "cordon", "untaint", "taint+annotate"}
			if len(p.BulkWhat) > 0 {
				kinds = p.BulkWhat
			}
			what := rapid.SampledFrom(kinds).Draw(rt, "what")
			back := Dur(o.SoftDeleteGracePeriod)
			switch rapid.IntRange(0, 3).Draw(rt, "age") {
			case 0:
				back = 0
			case 1:
				back = Dur(o.HardDeleteGracePeriod)
			}
			back += time.Duration(rapid.IntRange(1, 90).Draw(rt, "past")) * time.Second
			from := rapid.IntRange(0, n-1).Draw(rt, "from")
			if rapid.Bool().Draw(rt, "fromFirst") {
				from = 0
			}
			bulk := Action{Op: "bulk", Group: g, N: k, M: from, Key: what, D: back, Val: rapid.SampledFrom([]string{"keep", "true", `""`}).Draw(rt, "val")}
			if op == "bulk" {
				return bulk, "bulk/" + what
			}
			seq := []Action{bulk}
			kk := k
			if kk == 0 || kk > n {
				kk = n
			}
			if kk < n { // a node outside the bulk range, in name order after it
				x := names[(from+kk+rapid.IntRange(0, n-kk-1).Draw(rt, "other"))%n]
				switch rapid.SampledFrom([]string{"cordon+drain", "due+annotate", "due", "none"}).Draw(rt, "otherNode") {
				case "cordon+drain":
					seq = append(seq, Action{Op: "cordon", Node: x, Flag: true}, Action{Op: "clearNode", Node: x})
				case "due+annotate":
					seq = append(seq, Action{Op: "annotate", Node: x, Val: "keep"},
						Action{Op: "taint", Node: x, Key: ref.TaintKey, Val: fmt.Sprint(time.Now().Add(-Dur(o.HardDeleteGracePeriod) - time.Minute).Unix()), Effect: "NoSchedule"}, Action{Op: "clearNode", Node: x})
				case "due":
					seq = append(seq, Action{Op: "taint", Node: x, Key: ref.TaintKey, Val: fmt.Sprint(time.Now().Add(-Dur(o.HardDeleteGracePeriod) - time.Minute).Unix()), Effect: "NoSchedule"}, Action{Op: "clearNode", Node: x})
				}
			}
			seq = append(seq, Action{Op: "scan", Flag: true})
			return Action{Op: "seq", Seq: seq}, "bulkAnd/" + what
		}
	case "raceOnWrite": // somebody else writes a node between escalator's read and its write (the write is refused once with a conflict)
		tp, _ := w.drawTargetPods(rt, g, "zero", "belowL", "midLU", "aboveS", "farAboveS")
		return Action{Op: "seq", Seq: []Action{
			{Op: "fault", Faults: []sim.Fault{{Kind: sim.KUpdate, Nth: rapid.IntRange(0, 2).Draw(rt, "nth"), Count: rapid.SampledFrom([]int{1, 1, 2}).Draw(rt, "count")}},
				Val: rapid.SampledFrom([]string{"cordon", "annotate", "foreignTaint", "otherReplica", "label"}).Draw(rt, "writer")},
			tp, {Op: "scan", Flag: true},
		}}, "raceOnWrite"
	case "refreshFails": // the cloud description cannot be refreshed at the start of a scan (the provider is rebuilt), while the group needs attention
		tp, _ := w.drawTargetPods(rt, g, "zero", "belowL", "aboveS", "farAboveS")
		return Action{Op: "seq", Seq: []Action{
			{Op: "fault", Faults: []sim.Fault{{Kind: sim.ADescribeASG, Nth: 0, Count: rapid.SampledFrom([]int{1, 1, 2}).Draw(rt, "count"), Code: rapid.SampledFrom(cloudErrorCodes).Draw(rt, "code")}}},
			tp, {Op: "scan", Flag: true}, {Op: "scan", Flag: true},
		}}, "refreshFails"
	case "massDeleteFails": // many nodes are reaped in one scan while the API server refuses every node delete
		names := w.GroupNodeNames(g)
		if len(names) >= 5 {
			k := rapid.IntRange(5, minInt(9, len(names))).Draw(rt, "k")
			return Action{Op: "seq", Seq: []Action{
				{Op: "bulk", Group: g, N: k, M: 0, Key: "force+drain"},
				{Op: "fault", Faults: []sim.Fault{{Kind: sim.KDelete, Nth: -1}}},
				{Op: "scan", Flag: true},
			}}, "massDeleteFails"
		}
	case "fleetFailsEverywhere": // every group is short of capacity and no fleet instance comes up, for two scans in a row
		seq := []Action{{Op: "fleetPlan", Fleet: &sim.FleetPlan{Split: 1, PageSize: 50, NeverReady: 1, GoneState: rapid.SampledFrom([]string{"", "terminated"}).Draw(rt, "gone")}}}
		for gg := range w.Cfg.Groups {
			tp, _ := w.drawTargetPods(rt, gg, "aboveS", "farAboveS")
			seq = append(seq, tp)
		}
		seq = append(seq, Action{Op: "scan", Flag: true}, Action{Op: "advance", D: 20 * time.Minute}, Action{Op: "scan", Flag: true},
			Action{Op: "fleetPlan", Fleet: &sim.FleetPlan{Split: 1, PageSize: 50}})
		return Action{Op: "seq", Seq: seq}, "fleetFailsEverywhere"
	case "clonePod": // a pod of the same name in another namespace
		if names := w.PodNames(); len(names) > 0 {
			return Action{Op: "clonePod", Names: []string{rapid.SampledFrom(names).Draw(rt, "pod")}, Val: rapid.SampledFrom([]string{"team-b", "team-c", "kube-system"}).Draw(rt, "namespace")}, "clonePod"
		}
	case "replaceBetweenScans": // between two scans a pod of the group is replaced by a much larger one of the same name (a roll-out)
		var mine []string
		for _, p := range w.Pods {
			if w.podGroup(p) == g && !ref.IsDaemonSetPod(p) {
				mine = append(mine, p.Name)
			}
		}
		if len(mine) > 0 {
			via := "selector"
			if w.Cfg.Groups[g].Opts.Name == controller.DefaultNodeGroup {
				via = "none"
			}
			n := int64(len(w.GroupNodeNames(g)) + 1)
			big := PodSpec{Group: g, Via: via, CPU: w.Cfg.Groups[g].NodeCPU * n * int64(rapid.IntRange(1, 3).Draw(rt, "factor")), Mem: 1_000_000}
			return Action{Op: "seq", Seq: []Action{
				{Op: "scan", Flag: true},
				{Op: "replacePod", Names: []string{rapid.SampledFrom(mine).Draw(rt, "pod")}, Pods: []PodSpec{big}},
				{Op: "scan", Flag: true},
			}}, "replaceBetweenScans"
		}
	case "belowMinWithCordoned": // the group drops below its minimum while one of its tainted nodes is also cordoned
		names := w.GroupNodeNames(g)
		o := &w.Cfg.Groups[g].Opts
		if m := maxInt(o.MinNodes, 1); len(names) >= 2 && len(names) >= m {
			k := len(names) - m + 1 + rapid.IntRange(0, 1).Draw(rt, "extra")
			if k > len(names) {
				k = len(names)
			}
			from := rapid.IntRange(0, len(names)-1).Draw(rt, "from")
			x := names[(from+rapid.IntRange(0, k-1).Draw(rt, "cordoned"))%len(names)]
			return Action{Op: "seq", Seq: []Action{
				{Op: "bulk", Group: g, N: k, M: from, Key: "taint", D: time.Duration(rapid.IntRange(0, 20).Draw(rt, "ago")) * time.Second},
				{Op: "cordon", Node: x, Flag: true},
				{Op: "scan", Flag: true},
			}}, "belowMinWithCordoned"
		}
	case "oddTaintAtFloor": // a newer node carries the escalator taint key with a value that is not a time; utilisation is low
		if names := w.GroupNodeNames(g); len(names) >= 2 {
			x := names[len(names)-1-rapid.IntRange(0, minInt(1, len(names)-1)).Draw(rt, "fromNewest")]
			tp, _ := w.drawTargetPods(rt, g, "zero", "belowL")
			return Action{Op: "seq", Seq: []Action{
				{Op: "taint", Node: x, Key: ref.TaintKey, Val: rapid.SampledFrom([]string{"", "", "maintenance", "true"}).Draw(rt, "value"), Effect: "NoSchedule"},
				tp, {Op: "scan", Flag: true},
			}}, "oddTaintAtFloor"
		}
	case "sizeChangesThenZero": // the controller sees one node size, then another, then the group empties and pods arrive
		if names := w.GroupNodeNames(g); len(names) > 0 && len(names) <= 12 {
			via := "selector"
			if w.Cfg.Groups[g].Opts.Name == controller.DefaultNodeGroup {
				via = "none"
			}
			factor := rapid.SampledFrom([]int{2, 3, 4}).Draw(rt, "factor")
			seq := []Action{{Op: "scan", Flag: true}}
			for _, n := range names {
				seq = append(seq, Action{Op: "resizeNode", Node: n, N: factor})
			}
			seq = append(seq, Action{Op: "scan", Flag: true}, Action{Op: "zeroOut", Group: g}, Action{Op: "clearPods", Group: g},
				Action{Op: "addPods", Group: g, Pods: []PodSpec{{Group: g, Via: via, CPU: w.Cfg.Groups[g].NodeCPU * int64(factor) * int64(rapid.IntRange(2, 4).Draw(rt, "nodesWorth")), Mem: 1_000_000}}},
				Action{Op: "scan", Flag: true})
			return Action{Op: "seq", Seq: seq}, "sizeChangesThenZero"
		}
	case "unevenStarve": // the node with most free CPU is not the node with most free memory; a pending pod fits the latter
		var free []string
		for _, n := range w.GroupNodeNames(g) {
			if ref.Classify(w.K.Nodes[n]) == ref.Untainted {
				free = append(free, n)
			}
		}
		if len(free) >= 2 {
			via := "selector"
			if w.Cfg.Groups[g].Opts.Name == controller.DefaultNodeGroup {
				via = "none"
			}
			c, m := w.Cfg.Groups[g].NodeCPU, w.Cfg.Groups[g].NodeMem
			pend := rapid.IntRange(40, 85).Draw(rt, "pendingMemPct")
			pods := []PodSpec{
				{Group: g, Via: via, CPU: c / 10, Mem: m * 7 / 10, Node: free[0]},
				{Group: g, Via: via, CPU: c * 6 / 10, Mem: m / 10, Node: free[1]},
				{Group: g, Via: via, CPU: c / 10, Mem: m * int64(pend) / 100},
			}
			return Action{Op: "seq", Seq: []Action{{Op: "setPods", Group: g, Pods: pods}, {Op: "scan", Flag: true}}}, "unevenStarve"
		}
	case "parkedAsg": // the cloud group is parked (min = max = desired = 0) while pods for the group wait
		via := "selector"
		if w.Cfg.Groups[g].Opts.Name == controller.DefaultNodeGroup {
			via = "none"
		}
		return Action{Op: "seq", Seq: []Action{
			{Op: "zeroOut", Group: g}, {Op: "clearPods", Group: g}, {Op: "asgEdit", Group: g, N: 0, M: 0},
			{Op: "addPods", Group: g, Pods: []PodSpec{{Group: g, Via: via, CPU: int64(rapid.IntRange(1, 3000).Draw(rt, "cpu")), Mem: 1_000_000}}},
			{Op: "scan", Flag: true},
		}}, "parkedAsg"
	case "cordonedTaintedThenBusy": // two tainted nodes, the newer one also cordoned; then the group needs capacity
		if names := w.GroupNodeNames(g); len(names) >= 3 {
			from := rapid.IntRange(0, len(names)-2).Draw(rt, "from")
			tp, _ := w.drawTargetPods(rt, g, "aboveS", "farAboveS")
			stamp := fmt.Sprint(time.Now().Add(-time.Duration(rapid.IntRange(0, 20).Draw(rt, "ago")) * time.Second).Unix())
			return Action{Op: "seq", Seq: []Action{
				{Op: "taint", Node: names[from], Key: ref.TaintKey, Val: stamp, Effect: "NoSchedule"},
				{Op: "taint", Node: names[from+1], Key: ref.TaintKey, Val: stamp, Effect: "NoSchedule"},
				{Op: "cordon", Node: names[from+1], Flag: true},
				tp, {Op: "scan", Flag: true},
			}}, "cordonedTaintedThenBusy"
		}
	case "pinAsg": // the ASG is pinned (min == max) at or just below the group's node count while utilisation is low
		if n := len(w.GroupNodeNames(g)); n > 0 {
			pin := n - rapid.IntRange(0, 1).Draw(rt, "below")
			if pin < 1 {
				pin = 1
			}
			tp, _ := w.drawTargetPods(rt, g, "zero", "belowL", "midLU")
			return Action{Op: "seq", Seq: []Action{{Op: "asgEdit", Group: g, N: pin, M: pin}, tp, {Op: "scan", Flag: true}}}, "pinAsg"
		}
	case "replaceAndReap": // a node is reaped, the ASG replaces it one for one, the replacement is reaped
		names := w.GroupNodeNames(g)
		if len(names) > 0 {
			x := rapid.SampledFrom(names).Draw(rt, "node")
			return Action{Op: "seq", Seq: []Action{
				{Op: "drainAndForce", Group: g, Names: []string{x}}, {Op: "scan", Flag: true},
				{Op: "launch", Group: g, N: 1, Ages: []int64{0}, Flag: true},
				{Op: "drainAndForce", Group: g, Names: []string{"@newest"}}, {Op: "scan", Flag: true},
			}}, "replaceAndReap"
		}
	case "notReady": // the kubelet's Ready condition of a node changes
		if n, ok := needNode(); ok {
			return Action{Op: "condition", Node: n, Val: rapid.SampledFrom([]string{"True", "False", "Unknown", "False", "Unknown", ""}).Draw(rt, "ready")}, "notReady"
		}
	case "terminating": // somebody deletes the node object but a finalizer keeps it around
		if n, ok := needNode(); ok {
			return Action{Op: "terminating", Node: n, Flag: rapid.IntRange(0, 3).Draw(rt, "undo") > 0}, "terminating"
		}
	case "latency":
		return Action{Op: "latency", D: rapid.SampledFrom([]time.Duration{0, 0, 100 * time.Millisecond, 400 * time.Millisecond, 1200 * time.Millisecond, 3 * time.Second}).Draw(rt, "d")}, "latency"
	case "settle":
		return Action{Op: "settle"}, "settle"
	case "asgDeleting":
		return Action{Op: "asgDeleting", Group: g}, "asgDeleting"
	case "gracefulDelete":
		if names := w.PodNames(); len(names) > 0 {
			k := rapid.IntRange(1, minInt(3, len(names))).Draw(rt, "k")
			return Action{Op: "gracefulDelete", Names: rapid.Permutation(names).Draw(rt, "pods")[:k], N: rapid.SampledFrom([]int{-120, -1, 30, 3600}).Draw(rt, "deadline")}, "gracefulDelete"
		}
	case "resizePod":
		if names := w.PodNames(); len(names) > 0 {
			return Action{Op: "resizePod", Names: []string{rapid.SampledFrom(names).Draw(rt, "pod")}, N: rapid.IntRange(1, 4000).Draw(rt, "cpu"), M: rapid.IntRange(1, 4000).Draw(rt, "memMB")}, "resizePod"
		}
	case "heartbeat":
		if n, ok := needNode(); ok {
			return Action{Op: "heartbeat", Node: n}, "heartbeat"
		}
	case "dupNode": // two node objects for one instance
		return Action{Op: "oddNode", Group: g, Key: "dupprov", N: rapid.IntRange(0, 20).Draw(rt, "which")}, "dupNode"
	case "noProvNode": // a node that registered before the cloud controller set its provider id
		return Action{Op: "oddNode", Group: g, Key: "emptyprov", N: rapid.IntRange(0, 60).Draw(rt, "age")}, "noProvNode"
	case "lateBind": // pods wait, a node comes up for them, they are bound to it (pods older than their node)
		via := "selector"
		if w.Cfg.Groups[g].Opts.Name == controller.DefaultNodeGroup {
			via = "none"
		}
		return Action{Op: "seq", Seq: []Action{
			{Op: "addPods", Group: g, Pods: []PodSpec{{Group: g, Via: via, CPU: int64(rapid.IntRange(1, 500).Draw(rt, "cpu")), Mem: 1_000_000}}},
			{Op: "advance", D: time.Duration(rapid.IntRange(1, 5).Draw(rt, "wait")) * time.Second},
			{Op: "launch", Group: g, N: 1, Ages: []int64{0}, Flag: true},
			{Op: "schedule", Group: g, N: 3, M: rapid.IntRange(0, 7).Draw(rt, "offset")},
		}}, "lateBind"
	case "staleWindow": // informer lag: a scan, then something changes on a tainted node in the API only, time passes, a scan on the old cache
		var tainted []string
		for _, name := range w.GroupNodeNames(g) {
			if _, ok := ref.HasTaint(w.K.Nodes[name], ref.TaintKey); ok {
				tainted = append(tainted, name)
			}
		}
		if len(tainted) > 0 {
			x := rapid.SampledFrom(tainted).Draw(rt, "node")
			var change Action
			switch rapid.SampledFrom([]string{"untaint", "cordon", "annotate", "kill", "foreignTaint"}).Draw(rt, "change") {
			case "untaint":
				change = Action{Op: "untaint", Node: x, Key: ref.TaintKey}
			case "cordon":
				change = Action{Op: "cordon", Node: x, Flag: true}
			case "annotate":
				change = Action{Op: "annotate", Node: x, Val: "keep"}
			case "kill":
				change = Action{Op: "killNode", Node: x}
			default:
				change = Action{Op: "taint", Node: x, Key: "dedicated", Val: "x", Effect: "NoSchedule", Flag: true}
			}
			seq := []Action{{Op: "scan", Flag: true}, change}
			if tt := w.timeTargets(); len(tt) > 0 {
				seq = append(seq, Action{Op: "advance", D: rapid.SampledFrom(tt).Draw(rt, "d")})
			}
			if rapid.Bool().Draw(rt, "busyAfter") { // the pod cache is current and shows a surge, the node cache still lags
				tp, _ := w.drawTargetPods(rt, g, "eqS+1", "aboveS", "farAboveS")
				seq = append(seq, tp, Action{Op: "scan", Val: "pods"})
			} else {
				seq = append(seq, Action{Op: "scan", Flag: false})
			}
			return Action{Op: "seq", Seq: seq}, "staleWindow"
		}
	case "idleBlip": // a group without nodes scales up from zero, its pods vanish and come back inside the cool-down
		via := "selector"
		if w.Cfg.Groups[g].Opts.Name == controller.DefaultNodeGroup {
			via = "none"
		}
		pod := PodSpec{Group: g, Via: via, CPU: int64(rapid.IntRange(1, 3000).Draw(rt, "cpu")), Mem: 1_000_000}
		return Action{Op: "seq", Seq: []Action{
			{Op: "zeroOut", Group: g}, {Op: "clearPods", Group: g},
			{Op: "addPods", Group: g, Pods: []PodSpec{pod}}, {Op: "scan", Flag: true},
			{Op: "clearPods", Group: g}, {Op: "advance", D: time.Duration(rapid.IntRange(0, 30).Draw(rt, "gap")) * time.Second}, {Op: "scan", Flag: true},
			{Op: "addPods", Group: g, Pods: []PodSpec{pod, pod}}, {Op: "scan", Flag: true},
		}}, "idleBlip"
	case "sizeSeenOutOfBounds": // a fresh controller sees the group's nodes only while their number is outside [min_nodes, max_nodes]; then the group empties and pods arrive
		via := "selector"
		if w.Cfg.Groups[g].Opts.Name == controller.DefaultNodeGroup {
			via = "none"
		}
		have := len(w.GroupNodeNames(g))
		extra := w.Cfg.Groups[g].Opts.MaxNodes - have + rapid.IntRange(1, 2).Draw(rt, "over")
		if mx := w.Cfg.Groups[g].Opts.MaxNodes; mx > 0 && mx <= 16 && extra > 0 {
			k := int64(rapid.IntRange(2, 5).Draw(rt, "nodesWorth"))
			return Action{Op: "seq", Seq: []Action{
				{Op: "restart"}, {Op: "launch", Group: g, N: extra, Ages: []int64{0}, Flag: true}, {Op: "scan", Flag: true},
				{Op: "zeroOut", Group: g}, {Op: "clearPods", Group: g},
				{Op: "addPods", Group: g, Pods: []PodSpec{{Group: g, Via: via, CPU: w.Cfg.Groups[g].NodeCPU * k, Mem: 1_000_000}}}, {Op: "scan", Flag: true},
			}}, "sizeSeenOutOfBounds"
		}
	case "leftoverNode": // the instance is terminated but deleting the node object fails; an operator looks at the leftover object before the next scan
		names := w.GroupNodeNames(g)
		if len(names) > 0 {
			n := rapid.SampledFrom(names).Draw(rt, "node")
			seq := []Action{{Op: "drainAndForce", Group: g, Names: []string{n}},
				{Op: "fault", Faults: []sim.Fault{{Kind: sim.KDelete, Nth: -1, Node: n}}}, {Op: "scan", Flag: true}}
			switch rapid.SampledFrom([]string{"cordon", "cordon", "annotate", "none", "untaint", "pod"}).Draw(rt, "operator") {
			case "cordon":
				seq = append(seq, Action{Op: "cordon", Node: n, Flag: true})
			case "annotate":
				seq = append(seq, Action{Op: "annotate", Node: n, Val: "keep"})
			case "untaint": // the operator changes their mind about the node
				seq = append(seq, Action{Op: "untaint", Node: n, Key: ref.ForceTaintKey}, Action{Op: "untaint", Node: n, Key: ref.TaintKey})
			case "pod": // something lands on it
				via := "selector"
				if w.Cfg.Groups[g].Opts.Name == controller.DefaultNodeGroup {
					via = "none"
				}
				seq = append(seq, Action{Op: "addPods", Group: g, Pods: []PodSpec{{Group: g, Via: via, CPU: 100, Mem: 1_000_000, Node: n, Tolerate: "all"}}})
			}
			seq = append(seq, Action{Op: "scan", Flag: true})
			return Action{Op: "seq", Seq: seq}, "leftoverNode"
		}
	case "tinyThenZero": // the only node the controller has seen reports next to no allocatable; the group empties; pods arrive
		via := "selector"
		if w.Cfg.Groups[g].Opts.Name == controller.DefaultNodeGroup {
			via = "none"
		}
		return Action{Op: "seq", Seq: []Action{
			{Op: "zeroOut", Group: g}, {Op: "clearPods", Group: g},
			{Op: "oddNode", Group: g, Key: rapid.SampledFrom([]string{"tinycpu", "tinymem", "nocpu", "zerocpu"}).Draw(rt, "kind"), N: rapid.IntRange(0, 5000).Draw(rt, "age")},
			{Op: "scan", Flag: true}, {Op: "zeroOut", Group: g},
			{Op: "addPods", Group: g, Pods: []PodSpec{{Group: g, Via: via, CPU: int64(rapid.IntRange(1, 3000).Draw(rt, "cpu")), Mem: int64(rapid.IntRange(1, 4000).Draw(rt, "mem")) * 1_000_000}}},
			{Op: "scan", Flag: true},
		}}, "tinyThenZero"
	case "annotatedWhileDraining": // a tainted node past its soft grace still runs a pod and a scan has looked at it; then its owner annotates it; later it empties or the hard grace passes
		o := &w.Cfg.Groups[g].Opts
		names := w.GroupNodeNames(g)
		soft, hard := Dur(o.SoftDeleteGracePeriod), Dur(o.HardDeleteGracePeriod)
		if len(names) > 0 && hard > soft+3*time.Second {
			x := rapid.SampledFrom(names).Draw(rt, "node")
			via := "selector"
			if o.Name == controller.DefaultNodeGroup {
				via = "none"
			}
			seq := []Action{{Op: "taint", Node: x, Key: ref.TaintKey, Val: fmt.Sprint(time.Now().Add(-soft - time.Second).Unix()), Effect: "NoSchedule"},
				{Op: "addPods", Group: g, Pods: []PodSpec{{Group: g, Via: via, CPU: 100, Mem: 1_000_000, Node: x, Tolerate: "all"}}},
				{Op: "scan", Flag: true},
				{Op: "annotate", Node: x, Val: rapid.SampledFrom([]string{"keep", "true", "false", " "}).Draw(rt, "val")}}
			if rapid.Bool().Draw(rt, "empties") {
				seq = append(seq, Action{Op: "clearNode", Node: x}, Action{Op: "advance", D: time.Second})
			} else {
				seq = append(seq, Action{Op: "advance", D: hard - soft + time.Second})
			}
			seq = append(seq, Action{Op: "scan", Flag: true})
			return Action{Op: "seq", Seq: seq}, "annotatedWhileDraining"
		}
	case "replacedAfterRefusedWrites": // utilisation calls for tainting while the API server refuses every node write; before the next scan one of the oldest nodes is replaced by a new machine under the same name
		var untainted []string
		for _, n := range w.GroupNodeNames(g) {
			if ref.Classify(w.K.Nodes[n]) == ref.Untainted {
				untainted = append(untainted, n)
			}
		}
		if len(untainted) >= 3 {
			sort.SliceStable(untainted, func(i, j int) bool {
				return w.K.Nodes[untainted[i]].CreationTimestamp.Time.Before(w.K.Nodes[untainted[j]].CreationTimestamp.Time)
			})
			tp, _ := w.drawTargetPods(rt, g, "zero", "belowL", "midLU")
			tp2, _ := w.drawTargetPods(rt, g, "zero", "belowL", "midLU")
			x := untainted[rapid.IntRange(0, 1).Draw(rt, "whichOldest")]
			return Action{Op: "seq", Seq: []Action{tp, {Op: "fault", Faults: []sim.Fault{{Kind: sim.KUpdate, Nth: -1}}}, {Op: "scan", Flag: true},
				{Op: "setCreated", Node: x, N: 0}, tp2, {Op: "scan", Flag: true}}}, "replacedAfterRefusedWrites"
		}
	case "dueProtected": // an annotated node reaches the point where it would be removed; one API call about it may fail
		names := w.GroupNodeNames(g)
		if len(names) > 0 {
			n := rapid.SampledFrom(names).Draw(rt, "node")
			o := &w.Cfg.Groups[g].Opts
			back := Dur(o.SoftDeleteGracePeriod)
			if rapid.Bool().Draw(rt, "pastHard") {
				back = Dur(o.HardDeleteGracePeriod)
			}
			back += time.Duration(rapid.IntRange(1, 90).Draw(rt, "past")) * time.Second
			seq := []Action{{Op: "annotate", Node: n, Val: rapid.SampledFrom([]string{"keep", "true", "false", " ", `""`, "''"}).Draw(rt, "val")},
				{Op: "taint", Node: n, Key: ref.TaintKey, Val: fmt.Sprint(time.Now().Add(-back).Unix()), Effect: "NoSchedule"}, {Op: "clearNode", Node: n}}
			if k := rapid.SampledFrom([]string{"", sim.KGet, sim.KGet, sim.KUpdate, sim.KDelete}).Draw(rt, "failing"); k != "" {
				seq = append(seq, Action{Op: "fault", Faults: []sim.Fault{{Kind: k, Nth: -1, Node: n}}})
			}
			seq = append(seq, Action{Op: "scan", Flag: true})
			return Action{Op: "seq", Seq: seq}, "dueProtected"
		}
	case "neighbourFails": // an earlier group fails non-fatally (more nodes than its maximum) in the scan in which this group's cloud bounds have moved
		if g > 0 {
			h := rapid.IntRange(0, g-1).Draw(rt, "failing")
			mx := w.Cfg.Groups[h].Opts.MaxNodes
			if mx == 0 {
				mx = int(w.ASG(h).Max)
			}
			extra := mx - len(w.GroupNodeNames(h)) + 1
			if extra > 0 && extra <= 20 {
				min := rapid.IntRange(0, 5).Draw(rt, "min")
				tp, _ := w.drawTargetPods(rt, g, "zero", "belowL", "aboveS", "farAboveS")
				return Action{Op: "seq", Seq: []Action{
					{Op: "launch", Group: h, N: extra, Ages: []int64{0}, Flag: true},
					{Op: "asgEdit", Group: g, N: min, M: min + rapid.IntRange(1, 14).Draw(rt, "maxGap")},
					tp, {Op: "scan", Flag: true},
				}}, "neighbourFails"
			}
		}
	case "starveAfterScaleUp": // capacity that was requested arrives, the cool-down ends, a pod too big for any free slot is pending
		via := "selector"
		if w.Cfg.Groups[g].Opts.Name == controller.DefaultNodeGroup {
			via = "none"
		}
		cd := Dur(w.Cfg.Groups[g].Opts.ScaleUpCoolDownPeriod)
		return Action{Op: "seq", Seq: []Action{
			{Op: "reconcile", Group: g}, {Op: "register", Group: g},
			{Op: "advance", D: cd + time.Second},
			{Op: "addPods", Group: g, Pods: []PodSpec{{Group: g, Via: via, CPU: w.Cfg.Groups[g].NodeCPU - int64(rapid.IntRange(0, 100).Draw(rt, "slack")), Mem: 1_000_000}}},
			{Op: "scan", Flag: true},
		}}, "starveAfterScaleUp"
	case "forceBusy": // an operator force-taints a node that (still) runs a pod of the group
		names := w.GroupNodeNames(g)
		if len(names) > 0 {
			n := rapid.SampledFrom(names).Draw(rt, "node")
			via := "selector"
			if w.Cfg.Groups[g].Opts.Name == controller.DefaultNodeGroup {
				via = "none"
			}
			return Action{Op: "seq", Seq: []Action{
				{Op: "addPods", Group: g, Pods: []PodSpec{{Group: g, Via: via, CPU: 100, Mem: 1_000_000, Node: n, BoundPending: rapid.Bool().Draw(rt, "boundPending")}}},
				{Op: "taint", Node: n, Key: ref.ForceTaintKey, Val: fmt.Sprint(time.Now().Unix()), Effect: "NoSchedule"},
			}}, "forceBusy"
		}
	case "storm": // several empty force-tainted nodes, possibly a refused termination, high utilisation, then a scan
		names := w.GroupNodeNames(g)
		if len(names) >= 2 {
			k := rapid.IntRange(1, minInt(3, len(names)-1)).Draw(rt, "k")
			seq := []Action{{Op: "drainAndForce", Group: g, Names: rapid.Permutation(names).Draw(rt, "nodes")[:k]}}
			if rapid.Bool().Draw(rt, "refuseTerminate") {
				seq = append(seq, Action{Op: "fault", Faults: []sim.Fault{{Kind: sim.ATerminateInASG, Nth: rapid.IntRange(0, k-1).Draw(rt, "nth")}}})
			}
			tp, _ := w.drawTargetPods(rt, g, "eqS+1", "aboveS", "aboveS", "farAboveS")
			// the pods must not sit on the nodes that were just drained
			for i := range tp.Pods {
				for _, dn := range seq[0].Names {
					if tp.Pods[i].Node == dn {
						tp.Pods[i].Node = ""
					}
				}
			}
			seq = append(seq, tp, Action{Op: "scan", Flag: true})
			return Action{Op: "seq", Seq: seq}, "storm"
		}
	case "setCreated":
		if n, ok := needNode(); ok {
			if rapid.IntRange(0, 2).Draw(rt, "zero") == 0 {
				return Action{Op: "setCreated", Node: n, Flag: true}, "setCreated/zero"
			}
			return Action{Op: "setCreated", Node: n, N: rapid.SampledFrom([]int{0, 1, 100, 100, 5000, 86400}).Draw(rt, "age")}, "setCreated/age"
		}
	case "drainAndForce":
		names := w.GroupNodeNames(g)
		if len(names) > 0 {
			k := rapid.IntRange(1, minInt(3, len(names))).Draw(rt, "k")
			return Action{Op: "drainAndForce", Group: g, Names: rapid.Permutation(names).Draw(rt, "nodes")[:k]}, "drainAndForce"
		}
	case "fault":
		if p.FaultFocus == "cloud" && rapid.IntRange(0, 4).Draw(rt, "focused") > 0 {
			// a refresh failure (first DescribeAutoScalingGroups of the scan: sleep, rebuild), a refused
			// termination, or a failing cloud increase
			kind := rapid.SampledFrom([]string{sim.ADescribeASG, sim.ATerminateInASG, sim.ATerminateInASG, sim.ASetDesired, sim.ACreateFleet, sim.AAttach, sim.ADescribeInst}).Draw(rt, "kind")
			nth := 0
			if kind == sim.ATerminateInASG || kind == sim.AAttach {
				nth = rapid.IntRange(0, 2).Draw(rt, "nth")
			}
			return Action{Op: "fault", Faults: []sim.Fault{{Kind: kind, Nth: nth, Code: rapid.SampledFrom(cloudErrorCodes).Draw(rt, "code"), Count: rapid.SampledFrom([]int{1, 1, 2, 3, 4}).Draw(rt, "count")}}}, "fault/cloud"
		}
		if p.FaultFocus == "node-writes" && rapid.IntRange(0, 3).Draw(rt, "focused") > 0 {
			f := sim.Fault{Kind: rapid.SampledFrom([]string{sim.KGet, sim.KUpdate, sim.KGet, sim.KUpdate, sim.ATerminateInASG, sim.KDelete}).Draw(rt, "kind"), Nth: rapid.IntRange(0, 3).Draw(rt, "nth")}
			if len(nodes) > 0 && rapid.Bool().Draw(rt, "byNode") {
				f.Nth, f.Node = -1, rapid.SampledFrom(nodes).Draw(rt, "node")
			}
			writer := ""
			if f.Kind == sim.KUpdate { // the conflict has a cause: what the other writer did to the node
				writer = rapid.SampledFrom([]string{"", "cordon", "annotate", "foreignTaint", "otherReplica", "label"}).Draw(rt, "writer")
			}
			return Action{Op: "fault", Faults: []sim.Fault{f}, Val: writer}, "fault/node-writes"
		}
		return w.drawFault(rt), "fault"
	case "fleetPlan":
		fp := &sim.FleetPlan{
			Mode:       rapid.SampledFrom([]int{0, 0, 0, 1, 2}).Draw(rt, "mode"),
			PartialNum: rapid.IntRange(1, 30).Draw(rt, "partial"),
			Split:      rapid.IntRange(1, 3).Draw(rt, "split"),
			WithErrors: rapid.IntRange(0, 3).Draw(rt, "withErrors") == 0,
			ReadyAfter: rapid.SampledFrom([]time.Duration{0, time.Second, 5 * time.Second, 59 * time.Second, 61 * time.Second, time.Hour}).Draw(rt, "readyAfter"),
			NeverReady: rapid.SampledFrom([]int{0, 0, 0, 1, 3}).Draw(rt, "never"),
			PageSize:   rapid.SampledFrom([]int{1, 2, 7, 50}).Draw(rt, "page"),
			StaggerMod: rapid.SampledFrom([]int{0, 0, 2, 3, 5}).Draw(rt, "stagger"),
			ErrCode:    rapid.SampledFrom(sim.FleetErrorCodes).Draw(rt, "errCode"),
			LateTail:   rapid.SampledFrom([]int{0, 0, 0, 1, 5}).Draw(rt, "lateTail"),
			GoneState:  rapid.SampledFrom([]string{"", "", "stopped", "stopping", "shutting-down", "terminated"}).Draw(rt, "goneState"),
		}
		return Action{Op: "fleetPlan", Fleet: fp}, "fleetPlan"
	case "oddNode":
		return Action{Op: "oddNode", Group: g, Key: rapid.SampledFrom(OddNodeKinds).Draw(rt, "kind"), N: rapid.IntRange(0, 5000).Draw(rt, "age")}, "oddNode"
	case "oddPod":
		a := Action{Op: "oddPod", Group: g, Key: rapid.SampledFrom(OddPodKinds).Draw(rt, "kind")}
		if len(nodes) > 0 && rapid.Bool().Draw(rt, "bound") {
			a.Node = rapid.SampledFrom(nodes).Draw(rt, "podNode")
		}
		return a, "oddPod"
	}
	return Action{Op: "advance", D: time.Second}, "advance/free"
}

// FaultKinds are the call kinds a fault can be aimed at.
var FaultKinds = []string{sim.KGet, sim.KUpdate, sim.KDelete, sim.KListNodes, sim.KListPods, sim.ADescribeASG, sim.ASetDesired, sim.ATerminateInASG,
	sim.AAttach, sim.ACreateFleet, sim.AStatusPages, sim.ADescribeInst, sim.ATerminateInst, sim.ATags}

func (w *World) drawFault(rt *rapid.T) Action {
	n := rapid.IntRange(1, 2).Draw(rt, "nFaults")
	var fs []sim.Fault
	for i := 0; i < n; i++ {
		f := sim.Fault{}
		switch rapid.IntRange(0, 3).Draw(rt, "faultMode") {
		case 0: // any call by global index
			f.Kind = ""
			f.Nth = rapid.IntRange(0, 40).Draw(rt, "nth")
		case 1:
			f.Kind = rapid.SampledFrom(FaultKinds).Draw(rt, "kind")
			f.Nth = rapid.IntRange(0, 6).Draw(rt, "nth")
		case 2:
			f.Kind = rapid.SampledFrom(FaultKinds).Draw(rt, "kind")
			f.Nth = -1
		default:
			names := w.AllNodeNames()
			f.Kind = rapid.SampledFrom([]string{sim.KGet, sim.KUpdate, sim.KDelete}).Draw(rt, "kind")
			f.Nth = -1
			if len(names) > 0 {
				f.Node = rapid.SampledFrom(names).Draw(rt, "node")
			}
		}
		f.Code = rapid.SampledFrom(cloudErrorCodes).Draw(rt, "code")
		f.Count = rapid.SampledFrom([]int{1, 1, 1, 3}).Draw(rt, "count")
		fs = append(fs, f)
	}
	writer := rapid.SampledFrom([]string{"", "", "cordon", "annotate", "foreignTaint", "otherReplica"}).Draw(rt, "writer")
	return Action{Op: "fault", Faults: fs, Val: writer, N: rapid.SampledFrom([]int{0, 0, 0, 1, 2}).Draw(rt, "failBuild")}
}

// cloudErrorCodes are AWS error codes an injected cloud failure may carry ("" = InternalFailure).
var cloudErrorCodes = []string{"", "", "shape:no-reservation", "shape:empty-reservation", "Throttling", "RequestLimitExceeded", "ThrottlingException", "ValidationError", "ServiceUnavailable", "RequestExpired", "InvalidInstanceID.NotFound", "InvalidInstanceID.Malformed", "AccessDenied", "ResourceContention", "ScalingActivityInProgress"}

func maxInt(a, b int) int {
	if a > b {
		return a
	}
	return b
}
