package world

import (
	"fmt"
	"math/big"
	"reflect"
	"sort"
	"strconv"
	"strings"
	"time"

	"github.com/atlassian/escalator/pkg/cloudprovider"
	v1 "k8s.io/api/core/v1"

	"verifharness/ref"
	"verifharness/sim"
)

// errText renders an error without trusting it (a typed nil pointer inside the interface
// makes Error() panic).
func errText(err error) (s string) {
	if err == nil {
		return "<nil>"
	}
	defer func() {
		if r := recover(); r != nil {
			s = fmt.Sprintf("<%T whose Error() panics: %v>", err, r)
		}
	}()
	return err.Error()
}

// scaleUpDisturbed reports whether an injected failure of this group's segment hit a call the
// scale-up path depends on (anything but node removal calls); a refused termination or a
// failed node deletion earlier in the scan leaves the untaint / remainder arithmetic well defined.
func scaleUpDisturbed(rec *ScanRecord, gr *GroupRec) bool {
	if rec.MidScanChange {
		return true
	}
	for _, e := range append(append([]sim.Entry{}, rec.Prelude...), gr.Seg...) {
		if e.Injected && e.Kind != sim.ATerminateInASG && e.Kind != sim.KDelete {
			return true
		}
	}
	return len(gr.Failed) > 0
}

// cloudPathDisturbed: an injected failure hit a call the cloud half of a scale-up depends on
// (describe / increase / attach / list). Failed node reads and writes only reduce the number
// of nodes actually untainted.
func cloudPathDisturbed(rec *ScanRecord, gr *GroupRec) bool {
	if rec.MidScanChange {
		return true
	}
	for _, e := range append(append([]sim.Entry{}, rec.Prelude...), gr.Seg...) {
		if e.Injected && e.Kind != sim.ATerminateInASG && e.Kind != sim.KDelete && e.Kind != sim.KGet && e.Kind != sim.KUpdate {
			return true
		}
	}
	return false
}

// notInGroupHit reports whether some DeleteNodes call of the scan answered not-in-group.
func notInGroupHit(rec *ScanRecord) bool {
	for _, gr := range rec.Groups {
		for _, e := range gr.DeleteCalls {
			if strings.Contains(e.ErrType, "NodeNotInNodeGroup") {
				return true
			}
		}
	}
	return false
}

// Violation is one monitor verdict.
type Violation struct {
	Prop string `json:"prop"`
	Sig  string `json:"sig"` // stable signature: call site / input class
	Msg  string `json:"msg"`
}

func (v Violation) String() string { return v.Prop + " [" + v.Sig + "] " + v.Msg }

func viol(prop, sig, f string, a ...any) Violation {
	return Violation{Prop: prop, Sig: prop + ":" + sig, Msg: fmt.Sprintf(f, a...)}
}

// ---------------------------------------------------------------- expectation

// Expect is what the documented decision procedure yields for a group in a scan.
type Expect struct {
	Kind        string  // "unprocessed" | "dry" | "skip" | "recover" | "locked" | "band" | "ambiguous"
	Why         string  // for skip
	Bands       [4]bool // acceptable bands (Kind == band)
	Edge        string
	N           int   // recovery need (Kind == recover)
	Need        int64 // least number of equal-size nodes to add (band up, equal sizes, U > 0); -1 unknown
	EqualSize   bool
	FromZero    bool
	NoSizeKnown bool // scaling from zero with no node size ever observed: exactly one node
	Starve      bool // documented scale_on_starve condition holds
	MaxAge      bool // documented max_node_age condition holds
}

func equalSizes(nodes []*v1.Node) bool {
	for _, n := range nodes[1:] {
		if !reflect.DeepEqual(n.Status.Allocatable, nodes[0].Status.Allocatable) {
			return false
		}
	}
	return true
}

// Expectation computes the documented decision for group gr in scan rec.
func (w *World) Expectation(rec *ScanRecord, gr *GroupRec) Expect {
	o := &w.Cfg.Groups[gr.G].Opts
	gv := gr.GV
	ex := Expect{Need: -1}
	switch {
	case rec.Err != nil || rec.Panic != nil || rec.FatalExit:
		// the scan ended early (documented fatal error, or a crash judged by M20): what the
		// groups would have done afterwards cannot be judged
		ex.Kind = "aborted"
		return ex
	case !gr.Processed:
		ex.Kind = "unprocessed"
		return ex
	case gr.Dry:
		ex.Kind = "dry"
		return ex
	case gr.ListFault:
		ex.Kind, ex.Why = "skip", "list failed"
		return ex
	case len(gv.MaybePods) > 0:
		ex.Kind = "ambiguous"
		return ex
	case !normalShaped(gv):
		// outside the input domain of section 3.1 (absurd magnitudes, negative requests,
		// missing allocatable): only crash-freedom is claimed there (C20)
		ex.Kind = "odd"
		return ex
	}
	n, p, U := len(gv.Nodes), len(gv.Pods), len(gv.Untainted)
	switch {
	case n == 0 && p == 0:
		ex.Kind, ex.Why = "skip", "empty"
		return ex
	case n < gr.EffMin:
		ex.Kind, ex.Why = "skip", "below min"
		return ex
	case n > gr.EffMax:
		ex.Kind, ex.Why = "skip", "above max"
		return ex
	}
	if U < gr.EffMin {
		if gr.Locked {
			ex.Kind = "locked" // the lock is checked before any scaling activity
			return ex
		}
		ex.Kind, ex.N = "recover", gr.EffMin-U
		return ex
	}
	zeroC, zeroM := gv.CapCPU.Sign() == 0, gv.CapMem.Sign() == 0
	if U > 0 && (zeroC || zeroM) {
		ex.Kind, ex.Why = "skip", "zero capacity"
		return ex
	}
	if gr.Locked {
		ex.Kind = "locked"
		return ex
	}
	ex.Kind = "band"
	if U == 0 {
		if gv.ReqCPU.Sign() == 0 && gv.ReqMem.Sign() == 0 {
			ex.Bands[ref.BandFast] = true
		} else {
			ex.Bands[ref.BandUp] = true
			ex.FromZero = true
			// scaling from zero: the last observed node size, or exactly one node if none was observed
			if gr.CachedSize == nil {
				ex.Need, ex.NoSizeKnown = 1, true
			} else {
				sc, sm := ref.Capacity([]*v1.Node{{Status: v1.NodeStatus{Allocatable: gr.CachedSize}}})
				if sc.Sign() > 0 && sm.Sign() > 0 {
					ex.Need = ref.Need(gv.ReqCPU, gv.ReqMem, 0, sc, sm, int64(o.ScaleUpThresholdPercent))
				}
			}
		}
	} else {
		ex.Bands, ex.Edge = ref.Bands(gv.ReqCPU, gv.CapCPU, gv.ReqMem, gv.CapMem,
			int64(o.TaintLowerCapacityThresholdPercent), int64(o.TaintUpperCapacityThresholdPercent), int64(o.ScaleUpThresholdPercent))
		ex.EqualSize = equalSizes(gv.Untainted)
		if ex.EqualSize {
			sc, sm := ref.Capacity(gv.Untainted[:1])
			if sc.Sign() > 0 && sm.Sign() > 0 {
				ex.Need = ref.Need(gv.ReqCPU, gv.ReqMem, int64(U), sc, sm, int64(o.ScaleUpThresholdPercent))
			}
		}
	}
	// documented trigger conditions
	if o.ScaleOnStarve && U < gr.EffMax {
		ex.Starve = w.starved(gv)
	}
	if age := Dur(o.MaxNodeAge); age > 0 && U == gr.EffMin && U > 0 && len(gv.Tainted) == 0 {
		for _, nd := range gv.Untainted {
			if gr.Start.Sub(nd.CreationTimestamp.Time) > age {
				ex.MaxAge = true
			}
		}
	}
	return ex
}

// normalShaped: every node has positive allocatable CPU and memory, every request is
// non-negative, and totals stay within the magnitudes escalator's int64 milli-unit arithmetic
// can hold (section 3.1).
func normalShaped(gv *GroupView) bool {
	limMem := new(big.Int).Lsh(big.NewInt(1), 62)
	limMem.Quo(limMem, big.NewInt(1000))
	limCPU := new(big.Int).Lsh(big.NewInt(1), 50)
	for _, n := range gv.Nodes {
		c, m := ref.Capacity([]*v1.Node{n})
		if c.Sign() <= 0 || m.Sign() <= 0 {
			return false
		}
	}
	for _, p := range gv.Pods {
		c, m := ref.PodRequest(p)
		if c.Sign() < 0 || m.Sign() < 0 {
			return false
		}
		for _, ct := range append(append([]v1.Container{}, p.Spec.Containers...), p.Spec.InitContainers...) {
			for _, q := range ct.Resources.Requests {
				if q.Sign() < 0 {
					return false
				}
			}
		}
	}
	for _, v := range []*big.Int{gv.ReqMem, gv.CapMem} {
		if v.Cmp(limMem) > 0 {
			return false
		}
	}
	for _, v := range []*big.Int{gv.ReqCPU, gv.CapCPU} {
		if v.Cmp(limCPU) > 0 {
			return false
		}
	}
	return true
}

// starved: a pending group pod requests more CPU (or memory) than the largest free
// amount on any untainted node.
func (w *World) starved(gv *GroupView) bool {
	var maxPendC, maxPendM *big.Int
	for _, p := range gv.Pods {
		if p.Status.Phase != v1.PodPending {
			continue
		}
		c, m := ref.PodRequest(p)
		if maxPendC == nil || c.Cmp(maxPendC) > 0 {
			maxPendC = c
		}
		if maxPendM == nil || m.Cmp(maxPendM) > 0 {
			maxPendM = m
		}
	}
	if maxPendC == nil {
		return false
	}
	freeC, freeM := new(big.Int), new(big.Int)
	for _, n := range gv.Untainted {
		c, m := ref.Capacity([]*v1.Node{n})
		for _, p := range gv.PodsOn(n.Name) {
			scheduled := false
			for _, cond := range p.Status.Conditions {
				if cond.Type == v1.PodScheduled && cond.Status == v1.ConditionTrue {
					scheduled = true
				}
			}
			if scheduled && (p.Status.Phase == v1.PodPending || p.Status.Phase == v1.PodRunning) {
				pc, pm := ref.PodRequest(p)
				c.Sub(c, pc)
				m.Sub(m, pm)
			}
		}
		if c.Cmp(freeC) > 0 {
			freeC = c
		}
		if m.Cmp(freeM) > 0 {
			freeM = m
		}
	}
	return (maxPendC.Sign() > 0 && maxPendC.Cmp(freeC) > 0) || (maxPendM.Sign() > 0 && maxPendM.Cmp(freeM) > 0)
}

// Bound returns B = min(effective max_nodes, ASG maximum at refresh).
func (w *World) Bound(rec *ScanRecord, gr *GroupRec) int64 {
	b := int64(gr.EffMax)
	if s, ok := rec.ASGs[w.CloudName(gr.G)]; ok && s.Max < b {
		b = s.Max
	}
	return b
}

// ---------------------------------------------------------------- monitors

// CheckAll runs every monitor on the scan and returns all violations.
func (w *World) CheckAll(rec *ScanRecord) []Violation {
	if rec.View == nil {
		return nil
	}
	var out []Violation
	out = append(out, w.M01(rec)...)
	out = append(out, w.M02(rec)...)
	out = append(out, w.M03(rec)...)
	out = append(out, w.M04(rec)...)
	out = append(out, w.M05(rec)...)
	out = append(out, w.M06(rec)...)
	out = append(out, w.M07(rec)...)
	out = append(out, w.M08(rec)...)
	out = append(out, w.M09(rec)...)
	out = append(out, w.M10(rec)...)
	out = append(out, w.M10b(rec)...)
	out = append(out, w.M11(rec)...)
	out = append(out, w.M12(rec)...)
	out = append(out, w.M13(rec)...)
	out = append(out, w.M14(rec)...)
	out = append(out, w.M15(rec)...)
	out = append(out, w.M19(rec)...)
	out = append(out, w.M20(rec)...)
	out = append(out, w.MCache(rec)...)
	return out
}

// MCache: the objects served by the node and pod listers belong to the informer cache;
// escalator must not change them. A scan that leaves the cache view different from what it
// was served (a taint planted on a cached node whose update was refused, a taint appended by
// a dry group, a request quantity rewritten in place) corrupts what later scans and other
// groups see. Reported under the properties such a corruption breaks.
func (w *World) MCache(rec *ScanRecord) []Violation {
	var out []Violation
	if rec.ViewAfter == nil {
		return nil
	}
	diff := ""
	if len(rec.ViewAfter.Nodes) != len(rec.View.Nodes) || len(rec.ViewAfter.Pods) != len(rec.View.Pods) {
		diff = "number of cached objects changed"
	}
	for i := 0; diff == "" && i < len(rec.ViewAfter.Nodes); i++ {
		if !reflect.DeepEqual(rec.ViewAfter.Nodes[i], rec.View.Nodes[i]) {
			diff = fmt.Sprintf("cached node %s: served with taints %v, now %v", rec.View.Nodes[i].Name, briefTaints(rec.View.Nodes[i]), briefTaints(rec.ViewAfter.Nodes[i]))
		}
	}
	for i := 0; diff == "" && i < len(rec.ViewAfter.Pods); i++ {
		if !reflect.DeepEqual(rec.ViewAfter.Pods[i], rec.View.Pods[i]) {
			diff = fmt.Sprintf("cached pod %s was modified", rec.View.Pods[i].Name)
		}
	}
	if diff != "" {
		for _, prop := range []string{"C01", "C02", "C03", "C05", "C06", "C07", "C08", "C09", "C10", "C11", "C12", "C13", "C15", "C20"} {
			out = append(out, viol(prop, "informer-cache-object-mutated", "the scan modified an object of the informer cache: %s", diff))
		}
	}
	return out
}

// removals lists every accepted removal of the scan: (entry, view node or nil).
type removal struct {
	e    sim.Entry
	node *v1.Node
	g    int // group being processed when it happened
}

func (w *World) removals(rec *ScanRecord) []removal {
	var out []removal
	for _, gr := range rec.Groups {
		for _, e := range gr.Seg {
			if !e.OK() {
				continue
			}
			switch e.Kind {
			case sim.ATerminateInASG:
				out = append(out, removal{e, rec.NodeForInstance(e.IDs[0]), gr.G})
			case sim.KDelete:
				out = append(out, removal{e, rec.View.NodeByName(e.Node), gr.G})
			}
		}
	}
	return out
}

// M01: removal only after taint, grace period and drain conditions (C01).
func (w *World) M01(rec *ScanRecord) []Violation {
	var out []Violation
	for _, r := range w.removals(rec) {
		what := r.e.Kind
		if r.node == nil {
			out = append(out, viol("C01", "removed-node-not-in-view", "%s: target %v is not a node of the scan's view", what, append(r.e.IDs, r.e.Node)))
			continue
		}
		v := r.node
		g := w.GroupOfNode(v)
		if g < 0 {
			out = append(out, viol("C01", "removed-ungrouped-node", "%s: node %s belongs to no configured group", what, v.Name))
			continue
		}
		o := &w.Cfg.Groups[g].Opts
		gv := rec.Groups[g].GV
		if v.Spec.Unschedulable {
			out = append(out, viol("C01", "removed-cordoned", "%s: node %s is cordoned in the view", what, v.Name))
			continue
		}
		groupPods := len(gv.PodsOn(v.Name))
		_, force := ref.HasTaint(v, ref.ForceTaintKey)
		if force {
			if groupPods == 0 {
				continue
			}
			out = append(out, viol("C01", "force-removed-busy", "%s: force-tainted node %s runs %d group pods", what, v.Name, groupPods))
			continue
		}
		times, tainted := ref.TaintTimes(v)
		if !tainted {
			out = append(out, viol("C01", "removed-untainted", "%s: node %s carries no escalator taint in the view", what, v.Name))
			continue
		}
		if len(times) == 0 {
			out = append(out, viol("C01", "removed-unreadable-taint-time", "%s: node %s taint value %q is not a time", what, v.Name, briefTaints(v)))
			continue
		}
		soft, hard := Dur(o.SoftDeleteGracePeriod), Dur(o.HardDeleteGracePeriod)
		// the escalator key may be present more than once (different effects): the removal is
		// justified if any recorded time satisfies the rule
		best, bestAge := "removed-before-soft", time.Duration(0)
		justified := false
		for _, ts := range times {
			age := r.e.T.Sub(ts)
			switch {
			case age > hard, age > soft && groupPods == 0:
				justified = true
			case age > soft:
				best, bestAge = "removed-busy-before-hard", age
			default:
				if best == "removed-before-soft" {
					bestAge = age
				}
			}
		}
		if !justified {
			out = append(out, viol("C01", best, "%s: node %s tainted %v ago (soft %v hard %v) runs %d group pods", what, v.Name, bestAge, soft, hard, groupPods))
		}
	}
	return out
}

// M02: no activity while a scale-up is inside its cool-down (C02, safety half).
func (w *World) M02(rec *ScanRecord) []Violation {
	var out []Violation
	for _, gr := range rec.Groups {
		if !gr.Processed {
			continue
		}
		cd := Dur(w.Cfg.Groups[gr.G].Opts.ScaleUpCoolDownPeriod)
		t0, have := gr.LockT0, !gr.LockT0.IsZero()
		if rec.Restarted {
			have = false
		}
		for _, e := range gr.Seg {
			if have && e.T.Sub(t0) < cd && (e.IsK8sWrite() || e.IsAWSWrite()) {
				sig := "write-while-locked"
				if len(gr.GV.Untainted) < gr.EffMin {
					sig = "below-min-recovery-while-locked"
				}
				out = append(out, viol("C02", sig, "group %d: %s at +%v into a cool-down of %v", gr.G, e.String(), e.T.Sub(t0), cd))
				break
			}
			// a scale-up accepted earlier in this very segment locks from there on
			if e.Kind == sim.MIncreaseSize && e.OK() {
				t0, have = e.T, true
			}
		}
	}
	return out
}

// M03: tainting never leaves fewer than min_nodes untainted nodes (C03).
func (w *World) M03(rec *ScanRecord) []Violation {
	var out []Violation
	for _, gr := range rec.Groups {
		if !gr.Processed || gr.Dry {
			continue
		}
		k, U, m := len(gr.TaintedNow()), len(gr.GV.Untainted), gr.EffMin
		if k > 0 && U-k < m {
			out = append(out, viol("C03", "taint-below-min", "group %d: tainted %d of %d untainted nodes with min_nodes %d", gr.G, k, U, m))
		}
		n := len(gr.GV.Nodes)
		if U < m && n >= m && n <= gr.EffMax && k > 0 {
			out = append(out, viol("C03", "taint-while-below-min", "group %d: %d untainted < min %d yet %d nodes tainted", gr.G, U, m, k))
		}
	}
	return out
}

func cachedDesired(w *World, rec *ScanRecord, g int) int64 { return rec.ASGs[w.CloudName(g)].Desired }

// desiredAtScaleUp is the group's real desired capacity when the scale-up decision of the
// scan is taken: the refreshed value minus the terminations accepted earlier in the scan
// (force removal runs before the scaling action).
func desiredAtScaleUp(w *World, rec *ScanRecord, gr *GroupRec) int64 {
	return cachedDesired(w, rec, gr.G) - int64(len(gr.TermOK))
}

// increaseTarget is the group size a cloud increase request aims at: the value sent for
// SetDesiredCapacity; for a fleet, the real desired capacity at that moment plus the fleet size.
func increaseTarget(w *World, rec *ScanRecord, gr *GroupRec, e sim.Entry) int64 {
	if e.Kind == sim.ASetDesired {
		return e.Value
	}
	base := cachedDesired(w, rec, gr.G)
	for _, t := range gr.Seg {
		if t.Seq < e.Seq && t.Kind == sim.ATerminateInASG && t.OK() {
			base--
		}
		if t.Seq < e.Seq && t.Kind == sim.AAttach && t.OK() { // an earlier fleet of the same scan that was attached in part
			base += int64(len(t.IDs))
		}
	}
	return base + e.Value
}

// requestedTargets lists (target, accepted) of every cloud increase request of the segment.
func requestedTargets(w *World, rec *ScanRecord, gr *GroupRec) (targets []int64, accepted []bool) {
	for _, e := range gr.Increase {
		targets = append(targets, increaseTarget(w, rec, gr, e))
		accepted = append(accepted, e.OK())
	}
	return
}

// M04: cloud target never above min(max_nodes, cloud maximum) (C04).
func (w *World) M04(rec *ScanRecord) []Violation {
	var out []Violation
	for _, gr := range rec.Groups {
		if !gr.Processed {
			continue
		}
		B := w.Bound(rec, gr)
		for _, e := range gr.Increase {
			target := increaseTarget(w, rec, gr, e)
			if target > B {
				sig := "target-above-bound"
				if target <= rec.ASGs[w.CloudName(gr.G)].Max {
					sig = "target-above-max_nodes"
				}
				out = append(out, viol("C04", sig, "group %d: requested target %d exceeds min(max_nodes %d, cloud max %d)", gr.G, target, gr.EffMax, rec.ASGs[w.CloudName(gr.G)].Max))
			}
		}
		// what escalator asks of the provider object counts as asking the cloud provider, whether or
		// not the provider turns it down: IncreaseSize(delta) on top of the current target stays within the bound
		for _, e := range gr.IncreaseCalls {
			if cur := desiredAtScaleUp(w, rec, gr); e.Value > 0 && cur+e.Value > B && len(gr.Increase) == 0 && !rec.MidScanChange {
				out = append(out, viol("C04", "asked-above-bound", "group %d: IncreaseSize(%d) on a current target of %d exceeds min(max_nodes %d, cloud max %d)", gr.G, e.Value, cur, gr.EffMax, rec.ASGs[w.CloudName(gr.G)].Max))
			}
		}
		// clamp lands exactly on the bound
		ex := w.Expectation(rec, gr)
		if scaleUpDisturbed(rec, gr) {
			continue
		}
		var lower int64 = -1 // lower bound of the unclamped remainder
		K := int64(len(gr.UntaintedNow()))
		switch {
		case ex.Kind == "recover":
			lower = int64(ex.N) - K
		case ex.Kind == "band" && ex.Bands == [4]bool{false, false, false, true} && ex.Need >= 0:
			lower = ex.Need - K
		}
		if lower <= 0 {
			continue
		}
		cur := desiredAtScaleUp(w, rec, gr)
		if cur+lower > B {
			targets, _ := requestedTargets(w, rec, gr)
			switch {
			case cur < B && len(targets) == 0:
				out = append(out, viol("C04", "no-request-despite-headroom", "group %d: need %d more, desired %d < bound %d, but no cloud request", gr.G, lower, cur, B))
			case cur < B && targets[0] != B && targets[0] <= B:
				out = append(out, viol("C04", "clamp-not-on-bound", "group %d: need %d more from desired %d, bound %d, requested %d", gr.G, lower, cur, B, targets[0]))
			case cur >= B && len(targets) > 0:
				out = append(out, viol("C04", "request-without-headroom", "group %d: desired %d >= bound %d but requested %v", gr.G, cur, B, targets))
			}
		}
	}
	return out
}

// brought: nodes brought into service = untainted + newly requested (requested target minus
// the real desired capacity at call time; for a fleet the requested total). cloudFailed
// reports that the cloud (not escalator) refused or failed a request.
func brought(gr *GroupRec) (K, R int64, reqs int, cloudFailed bool) {
	// nodes brought back into service: untaints of tainted, uncordoned nodes (taking the taint off a
	// cordoned node restores nothing)
	for _, name := range gr.UntaintedNow() {
		for _, n := range gr.GV.Tainted {
			if n.Name == name {
				K++
			}
		}
	}
	for _, e := range gr.Increase {
		reqs++
		switch e.Kind {
		case sim.ASetDesired:
			R += e.Value - e.PreDesired
		case sim.ACreateFleet:
			R += e.Value
		}
	}
	// a failed IncreaseSize excuses a missing request only if the cloud refused or failed a call;
	// a provider that turns the request down by itself has simply not asked
	awsTrouble := false
	for _, e := range gr.Seg {
		switch e.Kind {
		case sim.ASetDesired, sim.ACreateFleet, sim.AAttach, sim.AStatusPages, sim.ADescribeInst, sim.ATerminateInst, sim.ADescribeASG:
			if !e.OK() {
				awsTrouble = true
			}
		}
	}
	for _, e := range gr.IncreaseCalls {
		if !e.OK() && (awsTrouble || len(gr.Increase) > 0) {
			cloudFailed = true
		}
	}
	return
}

// M05: scale-up size sufficient and at most one above the minimum (C05, end-to-end half).
func (w *World) M05(rec *ScanRecord) []Violation {
	var out []Violation
	for _, gr := range rec.Groups {
		ex := w.Expectation(rec, gr)
		// whatever fails on the way, what actually arrives stays within one node of the need: untaints
		// that were accepted, desired-capacity raises that were accepted, fleet instances that were attached
		if ex.Kind == "band" && ex.Need >= 0 && !ex.NoSizeKnown && ex.Bands == [4]bool{false, false, false, true} && cloudPathDisturbed(rec, gr) && !rec.MidScanChange {
			K, _, _, _ := brought(gr)
			arrived := K
			for _, e := range gr.Seg {
				switch {
				case e.Kind == sim.ASetDesired && e.OK() && e.Value > e.PreDesired:
					arrived += e.Value - e.PreDesired
				case e.Kind == sim.AAttach && e.OK():
					arrived += int64(len(e.IDs))
				}
			}
			if arrived > ex.Need+1 {
				out = append(out, viol("C05", "over-by-two-despite-failures", "group %d: need %d, but %d nodes arrived (untaints, accepted resizes and attached fleet instances of this scan)", gr.G, ex.Need, arrived))
			}
		}
		if ex.Kind != "band" || cloudPathDisturbed(rec, gr) || ex.Need < 0 {
			continue
		}
		if ex.Bands != [4]bool{false, false, false, true} {
			continue
		}
		K, R, _, cloudFailed := brought(gr)
		if cloudFailed {
			continue
		}
		got := K + R
		B := w.Bound(rec, gr)
		cur := desiredAtScaleUp(w, rec, gr)
		targets, _ := requestedTargets(w, rec, gr)
		clamped := (len(targets) > 0 && targets[0] >= B) || (len(targets) == 0 && cur >= B)
		if ex.NoSizeKnown {
			if got != 1 && !clamped {
				out = append(out, viol("C05", "from-zero-no-size-not-one", "group %d: no node size was ever observed, brought %d nodes instead of exactly one", gr.G, got))
			}
			continue
		}
		if got > ex.Need+1 {
			out = append(out, viol("C05", "over-by-two", "group %d: need %d, brought %d (untainted %d + requested %d)", gr.G, ex.Need, got, K, R))
		}
		if got < ex.Need && !clamped {
			out = append(out, viol("C05", "insufficient", "group %d: need %d, brought %d (untainted %d + requested %d), bound %d desired %d", gr.G, ex.Need, got, K, R, B, cur))
		}
	}
	return out
}

func minInt(a, b int) int {
	if a < b {
		return a
	}
	return b
}

// M06: direction and taint rate follow the utilisation bands (C06).
func (w *World) M06(rec *ScanRecord) []Violation {
	var out []Violation
	for _, gr := range rec.Groups {
		ex := w.Expectation(rec, gr)
		// failed reads / writes of single nodes of this group do not suspend the rule: a candidate that
		// cannot be tainted is passed over and the next oldest takes its place. Any other failure does.
		nodeFaultsOnly := true
		for _, e := range rec.Entries {
			if e.Injected && e.Kind != sim.KGet && e.Kind != sim.KUpdate {
				nodeFaultsOnly = false
			}
		}
		failedCandidates := 0
		for _, n := range gr.GV.Untainted {
			if gr.Failed[n.Name] {
				failedCandidates++
			}
		}
		if (rec.Faulty() || len(gr.Failed) > 0) && !(nodeFaultsOnly && failedCandidates == len(gr.Failed) && ex.Kind == "band" && !ex.Starve && !ex.MaxAge &&
			(ex.Bands == [4]bool{true, false, false, false} || ex.Bands == [4]bool{false, true, false, false})) {
			continue
		}
		o := &w.Cfg.Groups[gr.G].Opts
		k, un, inc := len(gr.TaintedNow()), len(gr.UntaintedNow()), len(gr.Increase)
		switch ex.Kind {
		case "skip":
			if gr.K8sWrites+gr.AWSWrites > 0 {
				out = append(out, viol("C06", "write-when-out-of-bounds", "group %d (%s): %d k8s / %d aws writes", gr.G, ex.Why, gr.K8sWrites, gr.AWSWrites))
			}
			continue
		case "band":
		default:
			continue
		}
		U, m := len(gr.GV.Untainted), gr.EffMin
		if ex.Starve || ex.MaxAge {
			// documented triggers: a scale-up of at least one node, never a taint
			if k > 0 {
				out = append(out, viol("C06", "trigger-tainted", "group %d: starve=%v maxage=%v but %d nodes tainted", gr.G, ex.Starve, ex.MaxAge, k))
			}
			if un == 0 && inc == 0 && (len(gr.GV.Tainted) > 0 || desiredAtScaleUp(w, rec, gr) < w.Bound(rec, gr)) {
				out = append(out, viol("C06", "trigger-no-scale-up", "group %d: starve=%v maxage=%v but nothing brought in", gr.G, ex.Starve, ex.MaxAge))
			}
			continue
		}
		okBand := func(b ref.Band) bool {
			switch b {
			case ref.BandFast:
				return k == minInt(minInt(o.FastNodeRemovalRate, U-m), U-failedCandidates) && un == 0 && inc == 0
			case ref.BandSlow:
				return k == minInt(minInt(o.SlowNodeRemovalRate, U-m), U-failedCandidates) && un == 0 && inc == 0
			case ref.BandNone:
				return k == 0 && un == 0 && inc == 0
			default:
				if k != 0 {
					return false
				}
				if un > 0 || inc > 0 {
					return true
				}
				// nothing to reuse and no headroom under either maximum
				return len(gr.GV.Tainted) == 0 && desiredAtScaleUp(w, rec, gr) >= w.Bound(rec, gr)
			}
		}
		good := false
		var want []string
		for b := ref.BandFast; b <= ref.BandUp; b++ {
			if ex.Bands[b] {
				want = append(want, b.String())
				if okBand(b) {
					good = true
				}
			}
		}
		if !good {
			sig := "band-" + strings.Join(want, "|")
			prop := "C06"
			out = append(out, viol(prop, sig, "group %d: u=(%v/%v cpu, %v/%v mem) thr=%d/%d/%d%s expected band %v with U=%d min=%d rates=%d/%d; got tainted=%d untainted=%d cloud-requests=%d",
				gr.G, gr.GV.ReqCPU, gr.GV.CapCPU, gr.GV.ReqMem, gr.GV.CapMem, o.TaintLowerCapacityThresholdPercent, o.TaintUpperCapacityThresholdPercent, o.ScaleUpThresholdPercent,
				ex.Edge, want, U, m, o.SlowNodeRemovalRate, o.FastNodeRemovalRate, k, un, inc))
			// no lock may be taken for capacity that did not arrive (C18)
			if gr.PrevIncreaseFailed && !rec.Restarted && k == 0 && un == 0 && inc == 0 && gr.K8sWrites+gr.AWSWrites == 0 {
				out = append(out, viol("C18", "lock-after-failed-scale-up", "group %d: the previous scan's cloud scale-up failed, yet this scan (expected %v) takes no action at all", gr.G, want))
			}
			// a group past its cool-down that still behaves as locked breaks C02's release half
			if !gr.LockT0.IsZero() && !rec.Restarted && k == 0 && un == 0 && inc == 0 && gr.K8sWrites+gr.AWSWrites == 0 {
				out = append(out, viol("C02", "lock-outlives-cooldown", "group %d: cool-down %v ended at %v, scan at %v still takes no action (expected %v)", gr.G,
					Dur(o.ScaleUpCoolDownPeriod), gr.LockT0.Add(Dur(o.ScaleUpCoolDownPeriod)).UTC().Format(time.RFC3339Nano), gr.Start.UTC().Format(time.RFC3339Nano), want))
			}
		}
	}
	return out
}

func createdBefore(a, b *v1.Node) bool {
	return a.CreationTimestamp.Time.Before(b.CreationTimestamp.Time)
}

func inSet(s []string, x string) bool {
	for _, v := range s {
		if v == x {
			return true
		}
	}
	return false
}

// M07: tainted nodes are reused before new capacity is bought (C07).
func (w *World) M07(rec *ScanRecord) []Violation {
	var out []Violation
	for _, gr := range rec.Groups {
		if !gr.Processed || gr.Dry {
			continue
		}
		un := gr.UntaintedNow()
		// (i) no cloud increase while a reusable node stays tainted
		var left []*v1.Node
		for _, n := range gr.GV.Tainted {
			if !inSet(un, n.Name) && !gr.Failed[n.Name] {
				left = append(left, n)
			}
		}
		if len(gr.Increase) > 0 && len(left) > 0 {
			out = append(out, viol("C07", "increase-while-tainted-left", "group %d: cloud increase requested while %d untaintable nodes stay tainted (e.g. %s)", gr.G, len(left), left[0].Name))
		}
		// (ii) newest first
		for _, x := range left {
			for _, yn := range un {
				y := gr.GV.Node(yn)
				if y != nil && createdBefore(y, x) {
					out = append(out, viol("C07", "untaint-not-newest-first", "group %d: untainted %s (created %s) but left newer %s (created %s) tainted", gr.G, y.Name,
						y.CreationTimestamp.UTC().Format("15:04:05"), x.Name, x.CreationTimestamp.UTC().Format("15:04:05")))
					goto next
				}
			}
		}
	next:
		// (iii) exact remainder when N is known exactly
		ex := w.Expectation(rec, gr)
		if cloudPathDisturbed(rec, gr) {
			continue
		}
		nodeFailures := len(gr.Failed) > 0
		K, R, nreq, cloudFailed := brought(gr)
		if cloudFailed {
			continue
		}
		P := int64(len(gr.GV.Tainted))
		B := w.Bound(rec, gr)
		cur := desiredAtScaleUp(w, rec, gr)
		// "on top of the group's current desired size": when the provider reports success for a
		// fleet request of R, R instances have been attached (each attach raises the desired size)
		if nreq > 0 && !nodeFailures {
			var fleetAsked, attached int64
			for _, e := range gr.Seg {
				if e.Kind == sim.ACreateFleet && e.OK() {
					fleetAsked += e.Value
				}
				if e.Kind == sim.AAttach && e.OK() {
					attached += int64(len(e.IDs))
				}
			}
			if fleetAsked > 0 && attached != fleetAsked {
				out = append(out, viol("C07", "desired-not-raised-by-remainder", "group %d: %d instances requested and reported as added, %d attached to the group", gr.G, fleetAsked, attached))
			}
		}
		switch {
		case ex.Kind == "recover":
			N := int64(ex.N)
			wantK := N
			if P < wantK {
				wantK = P
			}
			// capacity is restored by untainting nodes of the tainted (uncordoned) pool
			kPool := int64(0)
			for _, name := range un {
				for _, n := range gr.GV.Tainted {
					if n.Name == name {
						kPool++
					}
				}
			}
			if kPool != K && !nodeFailures {
				out = append(out, viol("C03", "recover-untaints-unschedulable-node", "group %d below its minimum: %d nodes untainted, only %d of them from the schedulable tainted pool", gr.G, K, kPool))
				out = append(out, viol("C07", "recover-untaints-unschedulable-node", "group %d below its minimum: %d nodes untainted, only %d of them from the schedulable tainted pool", gr.G, K, kPool))
			}
			if K != wantK && !nodeFailures {
				out = append(out, viol("C07", "recover-untaint-count", "group %d: need %d, %d tainted, untainted %d", gr.G, N, P, K))
				out = append(out, viol("C03", "recover-untaint-count", "group %d below its minimum: need %d, %d tainted, untainted %d", gr.G, N, P, K))
			}
			// a group past its cool-down that still behaves as locked breaks C02's release half
			if K == 0 && nreq == 0 && (P > 0 || B-cur > 0) && !gr.LockT0.IsZero() && !rec.Restarted && gr.K8sWrites+gr.AWSWrites == 0 && len(gr.Failed) == 0 {
				o := &w.Cfg.Groups[gr.G].Opts
				out = append(out, viol("C02", "lock-outlives-cooldown", "group %d: cool-down %v ended at %v, scan at %v below minimum (untainted %d < %d) still takes no action", gr.G,
					Dur(o.ScaleUpCoolDownPeriod), gr.LockT0.Add(Dur(o.ScaleUpCoolDownPeriod)).UTC().Format(time.RFC3339Nano), gr.Start.UTC().Format(time.RFC3339Nano), len(gr.GV.Untainted), gr.EffMin))
				out = append(out, viol("C03", "below-minimum-no-recovery", "group %d: %d untainted nodes, minimum %d, the cool-down is over, yet the scan neither untaints nor requests capacity", gr.G, len(gr.GV.Untainted), gr.EffMin))
			}
			rem := N - K
			if rem > 0 {
				head := B - cur
				want := rem
				if head < want {
					want = head
				}
				if want < 0 {
					want = 0
				}
				if want > 0 && (nreq == 0 || R != want) {
					out = append(out, viol("C07", "recover-remainder", "group %d: need %d, untainted %d, headroom %d: expected request of %d above real desired, got %d in %d requests", gr.G, N, K, head, want, R, nreq))
					out = append(out, viol("C03", "recover-remainder", "group %d below its minimum: need %d, untainted %d, headroom %d: expected request of %d above real desired, got %d in %d requests", gr.G, N, K, head, want, R, nreq))
				}
				if want == 0 && nreq > 0 {
					out = append(out, viol("C07", "recover-remainder", "group %d: no headroom (desired %d bound %d) yet %d requests", gr.G, cur, B, nreq))
				}
			} else if nreq > 0 {
				out = append(out, viol("C07", "request-beyond-need", "group %d: need %d fully met by %d untaints, yet cloud increase of %d", gr.G, N, K, R))
			}
		case ex.Kind == "band" && ex.Need >= 0 && ex.Bands == [4]bool{false, false, false, true}:
			if K > ex.Need+1 {
				out = append(out, viol("C07", "untaint-beyond-need", "group %d: need %d, untainted %d", gr.G, ex.Need, K))
			}
			if nreq > 0 && K+R > ex.Need+1 {
				out = append(out, viol("C07", "remainder-too-large", "group %d: need %d, untainted %d, then requested %d above the real desired capacity", gr.G, ex.Need, K, R))
			}
			if targets, _ := requestedTargets(w, rec, gr); nreq > 0 && K+R < ex.Need && targets[0] < B {
				out = append(out, viol("C07", "remainder-too-small", "group %d: need %d, untainted %d, requested only %d although the target %d stays below the bound %d", gr.G, ex.Need, K, R, targets[0], B))
			}
			if nreq == 0 && K < ex.Need && (K == P || nodeFailures) && len(left) == 0 && cur < B {
				out = append(out, viol("C07", "no-request-for-remainder", "group %d: need %d, untainted all %d tainted nodes, desired %d below the bound %d, yet no cloud request", gr.G, ex.Need, K, cur, B))
			}
		}
	}
	return out
}

// M08: scale-down taints the oldest nodes first (C08).
func (w *World) M08(rec *ScanRecord) []Violation {
	var out []Violation
	for _, gr := range rec.Groups {
		if !gr.Processed || gr.Dry {
			continue
		}
		tn := gr.TaintedNow()
		if len(tn) == 0 {
			continue
		}
		for _, y := range gr.GV.Untainted {
			if inSet(tn, y.Name) || gr.Failed[y.Name] {
				continue
			}
			if api := rec.API[y.Name]; api == nil || hasEsc(api) {
				continue
			}
			for _, xn := range tn {
				x := gr.GV.Node(xn)
				if x != nil && createdBefore(y, x) {
					out = append(out, viol("C08", "not-oldest-first", "group %d: tainted %s (created %s) but left older %s (created %s) untainted", gr.G, x.Name,
						x.CreationTimestamp.UTC().Format(time.RFC3339), y.Name, y.CreationTimestamp.UTC().Format(time.RFC3339)))
					goto next
				}
			}
		}
	next:
	}
	return out
}

// writeTargets lists the view nodes targeted by mutating calls of a segment.
func (w *World) writeTargets(rec *ScanRecord, gr *GroupRec) []removal {
	var out []removal
	for _, e := range gr.Seg {
		switch {
		case e.IsK8sWrite():
			out = append(out, removal{e, rec.View.NodeByName(e.Node), gr.G})
		case e.Kind == sim.ATerminateInASG:
			if len(e.IDs) == 1 {
				out = append(out, removal{e, rec.NodeForInstance(e.IDs[0]), gr.G})
			}
		}
	}
	return out
}

// M09: cordoned nodes are never touched and never counted (C09).
func (w *World) M09(rec *ScanRecord) []Violation {
	var out []Violation
	for _, gr := range rec.Groups {
		if !gr.Processed {
			continue
		}
		for _, t := range w.writeTargets(rec, gr) {
			if t.node != nil && t.node.Spec.Unschedulable {
				out = append(out, viol("C09", "write-on-cordoned", "group %d: %s targets cordoned node %s", gr.G, t.e.String(), t.node.Name))
			}
		}
		// never counted: the size of a scale-up is worked out from the untainted nodes alone. A size
		// that is too large for them but fits the node count with the cordoned nodes added was counted wrongly.
		if ex := w.Expectation(rec, gr); ex.Kind == "band" && ex.Bands == [4]bool{false, false, false, true} && ex.Need > 0 && !ex.FromZero &&
			len(gr.GV.Cordoned) > 0 && len(gr.GV.Untainted) > 0 && !cloudPathDisturbed(rec, gr) && len(gr.Failed) == 0 {
			K, R, nreq, cloudFailed := brought(gr)
			U, C := int64(len(gr.GV.Untainted)), int64(len(gr.GV.Cordoned))
			if got := K + R; !cloudFailed && nreq > 0 && got > ex.Need+1 && got <= (ex.Need+1)*(U+C)/U+1 {
				if targets, _ := requestedTargets(w, rec, gr); len(targets) > 0 && targets[0] < w.Bound(rec, gr) {
					out = append(out, viol("C09", "scale-up-size-counts-cordoned-nodes", "group %d: %d untainted and %d cordoned nodes, %d more nodes suffice, %d brought in (what the count with the cordoned nodes gives)", gr.G, U, C, ex.Need, got))
				}
			}
		}
		if gr.Dry {
			continue
		}
		// capacity gauges: set by this scan iff the scan got past the bounds guard
		if c := gr.Gauge["cpu_capacity"]; c != GaugeUnset {
			wantC, _ := new(big.Float).SetInt(gr.GV.CapCPU).Float64()
			wantM, _ := new(big.Float).SetInt(gr.GV.CapMem).Float64()
			if c != wantC || gr.Gauge["mem_capacity"] != wantM {
				sig := "capacity-mismatch"
				if len(gr.GV.Cordoned) > 0 {
					sig = "capacity-counts-cordoned"
				}
				out = append(out, viol("C09", sig, "group %d: capacity gauges cpu=%v mem=%v, untainted uncordoned allocatable cpu=%v mem=%v", gr.G, c, gr.Gauge["mem_capacity"], wantC, wantM))
			}
		}
	}
	return out
}

// M10: no-delete annotation protects from removal (C10, monitor half).
func (w *World) M10(rec *ScanRecord) []Violation {
	var out []Violation
	for _, r := range w.removals(rec) {
		if r.node == nil {
			continue
		}
		if _, force := ref.HasTaint(r.node, ref.ForceTaintKey); force {
			continue
		}
		if ref.NoDelete(r.node) {
			out = append(out, viol("C10", "removed-annotated", "%s removes node %s annotated %s=%q", r.e.Kind, r.node.Name, ref.NoDeleteKey, r.node.Annotations[ref.NoDeleteKey]))
		}
	}
	return out
}

// M10b: a protected node does not hold back the removal of other eligible nodes (C10). In a
// reaping scan (unlocked, in bounds, not scaling up, no trigger, fault-free) that sees a node with
// a non-empty no-delete annotation among the tainted nodes, every other tainted node that is
// removable by C01's rule with a clear margin is part of the removal request.
func (w *World) M10b(rec *ScanRecord) []Violation {
	var out []Violation
	for _, gr := range rec.Groups {
		ex := w.Expectation(rec, gr)
		if ex.Kind != "band" || ex.Bands[ref.BandUp] || ex.Starve || ex.MaxAge || rec.Faulty() || len(gr.Failed) > 0 {
			continue
		}
		protected := false
		for _, n := range gr.GV.Tainted {
			if ref.NoDelete(n) {
				protected = true
			}
		}
		if !protected {
			continue
		}
		o := &w.Cfg.Groups[gr.G].Opts
		asked := map[string]bool{}
		for _, dc := range gr.DeleteCalls {
			for _, n := range dc.Names {
				asked[n] = true
			}
		}
		for _, n := range gr.GV.Tainted {
			if ref.NoDelete(n) {
				continue
			}
			times, _ := ref.TaintTimes(n)
			if len(times) != 1 {
				continue
			}
			age := gr.Start.Sub(times[0])
			empty := len(gr.GV.PodsOn(n.Name)) == 0
			eligible := age > Dur(o.HardDeleteGracePeriod) || (age > Dur(o.SoftDeleteGracePeriod) && empty)
			if eligible && !asked[n.Name] {
				out = append(out, viol("C10", "annotation-holds-back-others", "group %d: node %s (tainted %v ago, empty=%v) is removable but was not part of any removal request while an annotated node is present", gr.G, n.Name, age, empty))
				break
			}
		}
	}
	return out
}

// M11: dry mode performs no writes (C11).
func (w *World) M11(rec *ScanRecord) []Violation {
	var out []Violation
	for _, gr := range rec.Groups {
		if !gr.Dry {
			continue
		}
		for _, e := range gr.Seg {
			if e.IsK8sWrite() || e.IsAWSWrite() {
				out = append(out, viol("C11", "write-in-dry-mode:"+e.Kind, "dry group %d: %s", gr.G, e.String()))
				break
			}
		}
	}
	// writes on a dry group's objects made while another group was processed
	for _, gr := range rec.Groups {
		for _, e := range gr.Seg {
			tg := -1
			switch {
			case e.IsK8sWrite():
				tg = w.GroupOfNode(rec.API[e.Node])
			case e.IsAWSWrite() && e.ASG != "":
				tg = w.GroupOfASG(e.ASG)
			}
			if tg >= 0 && tg != gr.G && w.Cfg.IsDry(tg) {
				out = append(out, viol("C11", "write-on-dry-group-object", "while processing group %d: %s touches dry group %d", gr.G, e.String(), tg))
			}
		}
	}
	return out
}

// M12: every action taken while processing a group targets that group (C12, monitor half).
func (w *World) M12(rec *ScanRecord) []Violation {
	var out []Violation
	for _, gr := range rec.Groups {
		for _, e := range gr.Seg {
			switch {
			case e.IsK8sWrite():
				n := rec.API[e.Node]
				if n == nil {
					n = rec.View.NodeByName(e.Node)
				}
				if tg := w.GroupOfNode(n); tg != gr.G {
					out = append(out, viol("C12", "k8s-write-outside-group", "while processing group %d: %s targets a node of group %d", gr.G, e.String(), tg))
				}
			case e.IsAWSWrite() && e.ASG != "":
				if tg := w.GroupOfASG(e.ASG); tg != gr.G {
					out = append(out, viol("C12", "aws-write-outside-group", "while processing group %d: %s targets ASG of group %d", gr.G, e.String(), tg))
				}
			case e.Kind == sim.ATerminateInASG && e.ASG == "" && e.OK():
				out = append(out, viol("C12", "terminate-unknown-instance", "while processing group %d: %s", gr.G, e.String()))
			case e.Kind == sim.ACreateFleet && e.FleetDetail != nil:
				own := map[string]bool{}
				if a := w.ASG(gr.G); a != nil {
					for _, sn := range strings.Split(a.VPCZones, ",") {
						own[sn] = true
					}
				}
				types := map[string]bool{"": len(w.Cfg.Groups[gr.G].Opts.AWS.InstanceTypeOverrides) == 0}
				for _, it := range w.Cfg.Groups[gr.G].Opts.AWS.InstanceTypeOverrides {
					types[it] = true
				}
				for _, ov := range e.FleetDetail.Overrides {
					if !own[ov[0]] || !types[ov[1]] {
						out = append(out, viol("C12", "fleet-request-built-from-other-group", "while processing group %d: CreateFleet override %v is not made of this group's subnets %q and instance types %v", gr.G, ov, w.ASG(gr.G).VPCZones, w.Cfg.Groups[gr.G].Opts.AWS.InstanceTypeOverrides))
						break
					}
				}
			case e.Kind == sim.MDeleteNodes || e.Kind == sim.MIncreaseSize:
				if tg := w.GroupOfASG(e.ASG); tg != gr.G {
					out = append(out, viol("C12", "cloud-call-on-other-group", "while processing group %d: %s addresses the cloud group of group %d", gr.G, e.String(), tg))
				}
			}
		}
	}
	// containment: a non-fatal problem in one group does not stop later groups
	if rec.Panic != nil {
		for _, gr := range rec.Groups {
			if !gr.Processed {
				out = append(out, viol("C12", "later-group-not-processed-after-panic", "a panic (%v) while an earlier group was processed kept group %d from being processed", rec.Panic, gr.G))
				break
			}
		}
	}
	if rec.Panic == nil && !rec.FatalExit {
		stopAt := -1
		if rec.Err != nil {
			if _, fatal := rec.Err.(*cloudprovider.NodeNotInNodeGroup); fatal && !notInGroupHit(rec) {
				out = append(out, viol("C12", "scan-stopped-without-not-in-group", "RunOnce returned the fatal not-in-group error type (%s) although no removal was answered not-in-group: a non-fatal failure stopped the scan", errText(rec.Err)))
			} else if !fatal && !strings.Contains(errText(rec.Err), "could not find node group") {
				stopAt = -2 // undocumented error: judged by M20 ...
				if !strings.Contains(errText(rec.Err), "injected failure") {
					for _, gr := range rec.Groups { // ... and, when it kept later groups from being looked at, a containment failure
						if !gr.Processed {
							out = append(out, viol("C12", "later-group-not-processed-after-undocumented-error", "RunOnce returned %s, which is none of the documented fatal conditions, and group %d was never processed", errText(rec.Err), gr.G))
							break
						}
					}
				}
			}
		}
		if rec.Err == nil && stopAt == -1 {
			for _, gr := range rec.Groups {
				if !gr.Processed {
					out = append(out, viol("C12", "later-group-not-processed", "scan returned nil but group %d was never processed", gr.G))
				}
			}
		}
	}
	return out
}

// gaugeMismatch compares the request and capacity gauges a scan set with the exact totals
// computed from the reference attribution; it returns descriptions of what differs.
func gaugeMismatch(gr *GroupRec) (request, capacity string) {
	if gr.Gauge["cpu_request"] == GaugeUnset {
		return
	}
	f := func(b *big.Int) float64 { v, _ := new(big.Float).SetInt(b).Float64(); return v }
	if c, m := gr.Gauge["cpu_request"], gr.Gauge["mem_request"]; c != f(gr.GV.ReqCPU) || m != f(gr.GV.ReqMem) {
		request = fmt.Sprintf("request gauges cpu=%v mem=%v, exact totals over the group's pods cpu=%v mem=%v", c, m, gr.GV.ReqCPU, gr.GV.ReqMem)
	}
	if c, m := gr.Gauge["cpu_capacity"], gr.Gauge["mem_capacity"]; c != f(gr.GV.CapCPU) || m != f(gr.GV.CapMem) {
		capacity = fmt.Sprintf("capacity gauges cpu=%v mem=%v, exact allocatable over the group's untainted uncordoned nodes cpu=%v mem=%v", c, m, gr.GV.CapCPU, gr.GV.CapMem)
	}
	return
}

// M13: request and capacity gauges equal the exact totals (C13, end-to-end half).
func (w *World) M13(rec *ScanRecord) []Violation {
	var out []Violation
	for _, gr := range rec.Groups {
		if !gr.Processed || gr.Dry || len(gr.GV.MaybePods) > 0 {
			continue
		}
		rq, cp := gaugeMismatch(gr)
		if rq != "" {
			out = append(out, viol("C13", "request-gauge-mismatch", "group %d: %s", gr.G, rq))
			out = append(out, viol("C12", "evaluated-from-other-pods", "group %d: %s", gr.G, rq))
		}
		if cp != "" {
			out = append(out, viol("C13", "capacity-gauge-mismatch", "group %d: %s", gr.G, cp))
			out = append(out, viol("C12", "evaluated-from-other-nodes", "group %d: %s", gr.G, cp))
		}
	}
	return out
}

// M14: what the real listers hand to the controller is exactly the documented attribution
// (C14, end-to-end half): the pod and node count gauges of a scan equal the reference counts.
func (w *World) M14(rec *ScanRecord) []Violation {
	var out []Violation
	for _, gr := range rec.Groups {
		if !gr.Processed || gr.ListFault || gr.Gauge["pods"] == GaugeUnset {
			continue
		}
		if got := int(gr.Gauge["nodes"]); got != len(gr.GV.Nodes) {
			out = append(out, viol("C14", "node-attribution-in-scan", "group %d: the scan saw %d nodes, the documented attribution gives %d", gr.G, got, len(gr.GV.Nodes)))
		}
		got := int(gr.Gauge["pods"])
		lo, hi := len(gr.GV.Pods), len(gr.GV.Pods)+len(gr.GV.MaybePods)
		if got < lo || got > hi {
			out = append(out, viol("C14", "pod-attribution-in-scan", "group %d: the scan saw %d pods, the documented attribution gives %d (plus %d undecided)", gr.G, got, lo, hi-lo))
		}
	}
	return out
}

func taintsEqualMultiset(a, b []v1.Taint) bool {
	if len(a) != len(b) {
		return false
	}
	key := func(t v1.Taint) string {
		ta := ""
		if t.TimeAdded != nil {
			ta = t.TimeAdded.UTC().Format(time.RFC3339Nano)
		}
		return t.Key + "\x00" + t.Value + "\x00" + string(t.Effect) + "\x00" + ta
	}
	var ka, kb []string
	for _, t := range a {
		ka = append(ka, key(t))
	}
	for _, t := range b {
		kb = append(kb, key(t))
	}
	sort.Strings(ka)
	sort.Strings(kb)
	return reflect.DeepEqual(ka, kb)
}

// PreciseWrite judges one accepted node update against the API object it replaced:
// exactly one escalator taint added (value = now, effect as configured) or exactly the
// escalator taint removed; everything else preserved. Returns "" if fine.
//
// The taint value must be the time of the write. With a slow API the stamp is taken between
// the read of the node that precedes the write (notBefore) and the arrival of the write (now);
// with an instant API both are the same instant.
func PreciseWrite(before, sent *v1.Node, notBefore, now time.Time, effect v1.TaintEffect) (sig, msg string) {
	if before == nil || sent == nil {
		return "update-of-absent-node", "update without a stored object"
	}
	b, s := before.DeepCopy(), sent.DeepCopy()
	bt, st := b.Spec.Taints, s.Spec.Taints
	b.Spec.Taints, s.Spec.Taints = nil, nil
	b.ResourceVersion, s.ResourceVersion = "", ""
	if !reflect.DeepEqual(b, s) {
		return "update-changes-other-fields", fmt.Sprintf("fields other than taints differ: before=%+v sent=%+v", b, s)
	}
	var bEsc, sEsc, bRest, sRest []v1.Taint
	for _, t := range bt {
		if t.Key == ref.TaintKey {
			bEsc = append(bEsc, t)
		} else {
			bRest = append(bRest, t)
		}
	}
	for _, t := range st {
		if t.Key == ref.TaintKey {
			sEsc = append(sEsc, t)
		} else {
			sRest = append(sRest, t)
		}
	}
	if !taintsEqualMultiset(bRest, sRest) {
		return "update-changes-foreign-taints", fmt.Sprintf("foreign taints before=%v sent=%v", bRest, sRest)
	}
	switch {
	case len(bEsc) == 0 && len(sEsc) == 1:
		t := sEsc[0]
		want := effect
		if want == "" {
			want = v1.TaintEffectNoSchedule
		}
		if t.Effect != want {
			return "taint-effect", fmt.Sprintf("taint effect %q, configured %q", t.Effect, effect)
		}
		if v, err := strconv.ParseInt(t.Value, 10, 64); err != nil || v < notBefore.Unix() || v > now.Unix() {
			return "taint-value-not-now", fmt.Sprintf("taint value %q, node read at unix time %d, write arrived at %d", t.Value, notBefore.Unix(), now.Unix())
		}
		if t.TimeAdded != nil {
			return "taint-extra-field", "TimeAdded set"
		}
	case len(bEsc) == 1 && len(sEsc) == 0:
	case len(bEsc) == len(sEsc) && len(bEsc) > 0:
		if !taintsEqualMultiset(bEsc, sEsc) {
			return "restamp", fmt.Sprintf("escalator taint rewritten: before=%v sent=%v", bEsc, sEsc)
		}
		return "useless-update", "update that changes nothing"
	case len(bEsc) == 0 && len(sEsc) == 0:
		return "useless-update", "update that changes nothing"
	default:
		return "escalator-taint-count", fmt.Sprintf("escalator taints before=%v sent=%v", bEsc, sEsc)
	}
	return "", ""
}

// M15: taint writes are precise and never restart a grace period (C15, history half).
func (w *World) M15(rec *ScanRecord) []Violation {
	var out []Violation
	cycled := map[string]string{} // node -> "removed" / "added": what this scan's accepted writes did to its escalator taint so far
	for _, gr := range rec.Groups {
		read := map[string]time.Time{}
		for _, e := range gr.Seg {
			if e.Kind == sim.KGet && e.OK() {
				read[e.Node] = e.T
			}
			if e.Kind != sim.KUpdate || !e.OK() {
				continue
			}
			// taking the taint off and putting it back on within one scan restarts the node's grace
			// period just as a re-stamp does (a scan scales a group up or down, never both)
			if e.Before != nil && e.Sent != nil {
				_, had := ref.HasTaint(e.Before, ref.TaintKey)
				_, has := ref.HasTaint(e.Sent, ref.TaintKey)
				switch {
				case had && !has:
					cycled[e.Node] = "removed"
				case !had && has:
					if cycled[e.Node] == "removed" {
						out = append(out, viol("C15", "taint-renewed-within-a-scan", "node %s: the escalator taint was removed and written again in the same scan (new time stamp)", e.Node))
					}
					cycled[e.Node] = "added"
				}
			}
			g := w.GroupOfNode(e.Before)
			var eff v1.TaintEffect
			if g >= 0 {
				eff = w.Cfg.Groups[g].Opts.TaintEffect
			}
			notBefore, ok := read[e.Node]
			if !ok {
				notBefore = e.T
			}
			if sig, msg := PreciseWrite(e.Before, e.Sent, notBefore, e.T, eff); sig != "" {
				out = append(out, viol("C15", sig, "update of %s: %s", e.Node, msg))
			}
			// an update that rolls back what somebody else wrote in the meantime (lost update)
			if e.Before != nil && e.Sent != nil {
				if e.Before.Spec.Unschedulable && !e.Sent.Spec.Unschedulable {
					out = append(out, viol("C09", "write-uncordons-node", "update of %s: the stored node is cordoned, the object sent is not", e.Node))
				}
				if ref.NoDelete(e.Before) && !ref.NoDelete(e.Sent) {
					out = append(out, viol("C10", "write-drops-no-delete-annotation", "update of %s: the stored node carries the no-delete annotation, the object sent does not", e.Node))
				}
			}
		}
	}
	return out
}

// M19: removal ordering and ASG minimum along histories (C19, history half).
func (w *World) M19(rec *ScanRecord) []Violation {
	var out []Violation
	for _, gr := range rec.Groups {
		// a batch = the terminate calls of one DeleteNodes call (closed by its marker); node
		// deletions that follow belong to that batch
		accepted := map[string]bool{} // node name -> termination accepted in the batch being built
		var lastOK map[string]bool    // accepted terminations of the last closed batch
		lastBatchOK := false
		for _, e := range gr.Seg {
			switch e.Kind {
			case sim.ATerminateInASG:
				if e.Flag == nil || !*e.Flag {
					out = append(out, viol("C19", "terminate-without-decrement", "group %d: %s", gr.G, e.String()))
				}
				if e.OK() {
					if n := rec.NodeForInstance(e.IDs[0]); n != nil {
						accepted[n.Name] = true
					}
					if e.PreDesired-1 < e.PreMin {
						out = append(out, viol("C19", "terminate-below-asg-min", "group %d: %s", gr.G, e.String()))
					}
				}
			case sim.MDeleteNodes:
				lastOK, lastBatchOK = accepted, e.OK()
				accepted = map[string]bool{}
			case sim.KDelete:
				if !lastOK[e.Node] {
					out = append(out, viol("C19", "k8s-delete-without-cloud-terminate", "group %d: %s was not preceded by an accepted termination of its instance", gr.G, e.String()))
				} else if !lastBatchOK {
					out = append(out, viol("C19", "k8s-delete-after-failed-batch", "group %d: %s follows a removal request that the cloud provider did not accept as a whole", gr.G, e.String()))
				}
			}
		}
	}
	// a batch that would breach the ASG minimum is refused as a whole: no terminate call at all
	for _, gr := range rec.Groups {
		var calls []sim.Entry
		for _, e := range gr.Seg {
			switch e.Kind {
			case sim.ATerminateInASG:
				calls = append(calls, e)
			case sim.MDeleteNodes:
				if len(calls) > 0 && calls[0].ASG != "" {
					D, min, b := calls[0].PreDesired, calls[0].PreMin, int64(len(e.Names))
					if D <= min || D-b < min {
						out = append(out, viol("C19", "batch-not-refused", "group %d: DeleteNodes of %d nodes started although the group's desired capacity was %d with minimum %d: %s", gr.G, b, D, min, calls[0].String()))
					}
				}
				calls = nil
			}
		}
	}
	// capacity is only ever reduced by terminating the instances of the chosen nodes: lowering the
	// desired capacity lets the cloud pick the victim (it may be a protected, busy or untainted node)
	staleDescription := false // after a failed refresh the provider works from an older description
	for _, e := range rec.Prelude {
		if e.Injected {
			staleDescription = true
		}
	}
	for _, gr := range rec.Groups {
		for _, e := range gr.Seg {
			if e.Kind == sim.ASetDesired && e.OK() && e.Value < e.PreDesired && !staleDescription {
				props := []string{"C01", "C17", "C19"}
				for _, n := range gr.GV.Nodes {
					if ref.NoDelete(n) {
						props = append(props, "C10")
						break
					}
				}
				for _, p := range props {
					out = append(out, viol(p, "untargeted-scale-in", "group %d: SetDesiredCapacity(%d) below the real desired capacity %d: the cloud chooses which instance goes", gr.G, e.Value, e.PreDesired))
				}
			}
		}
	}
	// one removal request per reaper pass: the nodes a pass decides to remove go to the cloud
	// provider in one DeleteNodes call (so that the minimum check and the all-or-nothing rule apply
	// to the whole set); there is one pass for force-tainted nodes and one for tainted nodes
	for _, gr := range rec.Groups {
		var forceCalls, taintCalls int
		for _, e := range gr.DeleteCalls {
			force := false
			for _, name := range e.Names {
				if n := gr.GV.Node(name); n != nil {
					if _, ok := ref.HasTaint(n, ref.ForceTaintKey); ok {
						force = true
					}
				}
			}
			if force {
				forceCalls++
			} else {
				taintCalls++
			}
		}
		if forceCalls > 1 || taintCalls > 1 {
			out = append(out, viol("C19", "removal-request-split", "group %d: %d removal requests for force-tainted and %d for tainted nodes in one scan (one per pass expected)", gr.G, forceCalls, taintCalls))
		}
	}
	// a not-in-group answer for a node whose instance is a member of the group's ASG
	for _, gr := range rec.Groups {
		snap, ok := rec.ASGs[w.Cfg.Groups[gr.G].Opts.CloudProviderGroupName]
		if !ok {
			continue
		}
		refreshFailed := false // the provider may then work from an older description
		for _, e := range rec.Prelude {
			if e.Injected {
				refreshFailed = true
			}
		}
		if refreshFailed {
			continue
		}
		gone := map[string]bool{}
		for _, e := range gr.Seg {
			if e.Kind == sim.ATerminateInASG && e.OK() && len(e.IDs) > 0 {
				gone[e.IDs[0]] = true
			}
			if e.Kind != sim.MDeleteNodes || !strings.Contains(e.ErrType, "NodeNotInNodeGroup") {
				continue
			}
			allMembers := len(e.Names) > 0
			for _, name := range e.Names {
				n := gr.GV.Node(name)
				member := false
				if n != nil {
					for _, id := range snap.Instances {
						if !gone[id] && n.Spec.ProviderID == w.A.ProviderIDOf(id) {
							member = true
						}
					}
				}
				if !member {
					allMembers = false
				}
			}
			if allMembers {
				out = append(out, viol("C19", "member-reported-not-in-group", "group %d: DeleteNodes(%v) answered not-in-group although every node's instance is a member of %s", gr.G, e.Names, snap.Name))
				out = append(out, viol("C12", "member-reported-not-in-group", "group %d: DeleteNodes(%v) answered not-in-group although every node's instance is a member of %s; the scan stops and later groups are not processed", gr.G, e.Names, snap.Name))
				out = append(out, viol("C20", "member-reported-not-in-group", "group %d: DeleteNodes(%v) answered not-in-group although every node's instance is a member of %s; the controller stops without the documented condition", gr.G, e.Names, snap.Name))
			}
		}
	}
	// fatality: a not-in-group answer from the cloud provider ends the scan with that error
	hit := -1
	for _, gr := range rec.Groups {
		if hit >= 0 && gr.Processed {
			out = append(out, viol("C19", "continued-after-not-in-group", "group %d processed after group %d hit a not-in-group error", gr.G, hit))
		}
		for _, e := range gr.DeleteCalls {
			if strings.Contains(e.ErrType, "NodeNotInNodeGroup") {
				hit = gr.G
			}
		}
	}
	if hit >= 0 && rec.Panic == nil && !rec.FatalExit {
		if _, ok := rec.Err.(*cloudprovider.NodeNotInNodeGroup); !ok {
			out = append(out, viol("C19", "not-in-group-not-fatal", "group %d hit a not-in-group error but RunOnce returned %s", hit, errText(rec.Err)))
		}
	}
	return out
}

// M20: a scan never panics, and returns only documented errors (C20).
func (w *World) M20(rec *ScanRecord) []Violation {
	var out []Violation
	if rec.Panic != nil {
		first := ""
		for _, l := range strings.Split(rec.Stack, "\n") {
			if strings.Contains(l, "github.com/atlassian/escalator/") && !strings.Contains(l, "verif_hooks") {
				first = strings.TrimSpace(l)
				break
			}
		}
		if i := strings.LastIndex(first, "/escalator/"); i >= 0 {
			first = first[i+len("/escalator/"):]
		}
		if i := strings.LastIndex(first, "("); i > 0 {
			first = first[:i]
		}
		out = append(out, viol("C20", "panic:"+first, "RunOnce panicked: %v\n%s", rec.Panic, rec.Stack))
	}
	if rec.RealDur > 60*time.Second {
		out = append(out, viol("C20", "hang", "RunOnce took %v of real time", rec.RealDur))
	}
	if rec.Hung {
		out = append(out, viol("C20", "hang", "RunOnce never returned: every goroutine of the scan is blocked for good"))
	}
	// the only documented exit besides the not-in-group error: the third consecutive failed fleet
	// provisioning of one group
	if rec.FatalExit {
		last := -1
		total := 0
		for _, gr := range rec.Groups {
			if gr.Processed {
				last = gr.G
			}
			total += gr.FleetFails
		}
		if last >= 0 && rec.Groups[last].FleetFails < 3 {
			out = append(out, viol("C20", "undocumented-exit", "escalator exited while group %d had %d consecutive failed fleet provisionings (3 are documented)", last, rec.Groups[last].FleetFails))
			out = append(out, viol("C18", "exit-before-third-consecutive-failure", "escalator exited while group %d had %d consecutive failed fleet provisionings", last, rec.Groups[last].FleetFails))
			if total >= 3 {
				out = append(out, viol("C12", "exit-caused-by-other-groups-failures", "escalator exited while group %d had %d consecutive failed fleet provisionings; the failures of the other groups were counted against it", last, rec.Groups[last].FleetFails))
			}
		}
	}
	if rec.Err != nil {
		_, fatal := rec.Err.(*cloudprovider.NodeNotInNodeGroup)
		msg := errText(rec.Err)
		if fatal && !notInGroupHit(rec) {
			fatal = false
		}
		documented := fatal || strings.Contains(msg, "could not find node group") || strings.Contains(msg, "injected failure")
		if !documented {
			out = append(out, viol("C20", "undocumented-error", "RunOnce returned %s", msg))
		}
	}
	return out
}
