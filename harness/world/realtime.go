package world

import (
	"syscall"
	"time"
)

// realNow reads the wall clock through a raw system call, which a synctest bubble does
// not virtualise. It is used only for the C20 hang watchdog, never for a verdict input.
func realNow() int64 {
	var tv syscall.Timeval
	_ = syscall.Gettimeofday(&tv)
	return tv.Sec*1e9 + int64(tv.Usec)*1e3
}

func realSince(t0 int64) time.Duration { return time.Duration(realNow() - t0) }
