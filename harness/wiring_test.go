//go:build verif

package verifharness

import (
	"encoding/json"
	"fmt"
	"net/http"
	"net/http/httptest"
	"sort"
	"strings"
	"sync"
	"testing"
	"time"

	"github.com/atlassian/escalator/pkg/controller"
	v1 "k8s.io/api/core/v1"
	"k8s.io/apimachinery/pkg/api/equality"
	metav1 "k8s.io/apimachinery/pkg/apis/meta/v1"
	"k8s.io/apimachinery/pkg/labels"
	"k8s.io/apimachinery/pkg/types"
	"k8s.io/client-go/kubernetes"
	"k8s.io/client-go/rest"
	"pgregory.net/rapid"

	"verifharness/ref"
	"verifharness/world"
)

// The history checks hand escalator listers of their own (the verif hooks mirror
// NewController / NewClient without informers). This check runs the production wiring instead:
// controller.NewClient over a real client-go clientset that talks HTTP to a small API server
// serving generated nodes and pods (LIST + WATCH). Round-trip oracle: what the group listers
// return is, object for object and field for field, what the API server holds for the nodes and
// pods the reference attribution assigns to the group. A difference is reported under the
// properties that read the differing field.

type miniAPI struct {
	mu    sync.Mutex
	nodes []*v1.Node
	pods  []*v1.Pod
}

func (m *miniAPI) ServeHTTP(w http.ResponseWriter, r *http.Request) {
	q := r.URL.Query()
	if q.Get("watch") == "true" || q.Get("watch") == "1" {
		w.Header().Set("Content-Type", "application/json")
		w.WriteHeader(http.StatusOK)
		if f, ok := w.(http.Flusher); ok {
			f.Flush()
		}
		<-r.Context().Done() // nothing changes while the check looks at the listers
		return
	}
	m.mu.Lock()
	defer m.mu.Unlock()
	var out any
	switch r.URL.Path {
	case "/api/v1/nodes":
		l := &v1.NodeList{TypeMeta: metav1.TypeMeta{Kind: "NodeList", APIVersion: "v1"}, ListMeta: metav1.ListMeta{ResourceVersion: "100"}}
		for _, n := range m.nodes {
			l.Items = append(l.Items, *n)
		}
		out = l
	case "/api/v1/pods":
		l := &v1.PodList{TypeMeta: metav1.TypeMeta{Kind: "PodList", APIVersion: "v1"}, ListMeta: metav1.ListMeta{ResourceVersion: "100"}}
		sel := q.Get("fieldSelector")
		for _, p := range m.pods {
			// the API server evaluates the field selector escalator asks for
			if strings.Contains(sel, "status.phase!=Succeeded") && p.Status.Phase == v1.PodSucceeded {
				continue
			}
			if strings.Contains(sel, "status.phase!=Failed") && p.Status.Phase == v1.PodFailed {
				continue
			}
			l.Items = append(l.Items, *p)
		}
		out = l
	default:
		http.Error(w, `{"kind":"Status","apiVersion":"v1","status":"Failure","reason":"NotFound","code":404}`, http.StatusNotFound)
		return
	}
	w.Header().Set("Content-Type", "application/json")
	_ = json.NewEncoder(w).Encode(out)
}

// which properties read which part of the objects, and how to get at that part (compared with
// apimachinery's semantic equality: quantities by value, times by instant, nil == empty)
type nodeField struct {
	path  string
	props []string
	get   func(*v1.Node) any
}

type podField struct {
	path  string
	props []string
	get   func(*v1.Pod) any
}

var nodeFields = []nodeField{
	{"metadata.creationTimestamp", []string{"C07", "C08"}, func(n *v1.Node) any { return n.CreationTimestamp }},
	{"spec.unschedulable", []string{"C09"}, func(n *v1.Node) any { return n.Spec.Unschedulable }},
	{"metadata.annotations", []string{"C10"}, func(n *v1.Node) any { return n.Annotations }},
	{"spec.taints", []string{"C01", "C15"}, func(n *v1.Node) any { return n.Spec.Taints }},
	{"metadata.labels", []string{"C12", "C14"}, func(n *v1.Node) any { return n.Labels }},
	{"status.allocatable", []string{"C05", "C13"}, func(n *v1.Node) any { return n.Status.Allocatable }},
	{"spec.providerID", []string{"C19"}, func(n *v1.Node) any { return n.Spec.ProviderID }},
	{"metadata.deletionTimestamp", []string{"C01"}, func(n *v1.Node) any { return n.DeletionTimestamp }},
}

var podFields = []podField{
	{"metadata.annotations", []string{"C14"}, func(p *v1.Pod) any { return p.Annotations }},
	{"metadata.ownerReferences", []string{"C14"}, func(p *v1.Pod) any { return p.OwnerReferences }},
	{"spec.nodeSelector", []string{"C14"}, func(p *v1.Pod) any { return p.Spec.NodeSelector }},
	{"spec.affinity", []string{"C14"}, func(p *v1.Pod) any { return p.Spec.Affinity }},
	{"spec.nodeName", []string{"C01"}, func(p *v1.Pod) any { return p.Spec.NodeName }},
	{"spec.containers", []string{"C05", "C13"}, func(p *v1.Pod) any { return p.Spec.Containers }},
	{"spec.initContainers", []string{"C13"}, func(p *v1.Pod) any { return p.Spec.InitContainers }},
	{"spec.overhead", []string{"C13"}, func(p *v1.Pod) any { return p.Spec.Overhead }},
	{"status.phase", []string{"C01", "C13"}, func(p *v1.Pod) any { return p.Status.Phase }},
	{"status.conditions", []string{"C05"}, func(p *v1.Pod) any { return p.Status.Conditions }},
	{"metadata.uid", []string{"C13"}, func(p *v1.Pod) any { return p.UID }},
	{"metadata.creationTimestamp", []string{"C01"}, func(p *v1.Pod) any { return p.CreationTimestamp }},
	{"metadata.deletionTimestamp", []string{"C01", "C13", "C14"}, func(p *v1.Pod) any { return p.DeletionTimestamp }},
}

func wiringCheck(t *testing.T, prop string) {
	col := newCollector(t, prop, "production wiring round trip: generated nodes and pods are served by a small HTTP API server; the real controller.NewClient (client-go clientset, reflectors, informers, group listers) is built on it; oracle: each group's listers return exactly the nodes / pods the reference attribution assigns to it, with every field this property reads unchanged; non-trivial = a group with >= 2 nodes and >= 1 pod, cordoned or annotated or tainted nodes present; distinct by (groups, nodes, pods, shapes)")
	profile := &world.Profile{Name: "wiring", MinGroups: 1, MaxGroups: 3, Dry: 1, Auto: 1, Default: 1, MaxInit: 8, SmallGraces: true, Steps: 12, DupTaints: true,
		Weights: map[string]int{"addPods": 8, "targetUtil": 4, "cordon": 4, "taintExt": 5, "annotate": 5, "foreignTaint": 2, "launch": 2, "oddPod": 2, "oddNode": 1, "notReady": 2, "setCreated": 2, "schedule": 2, "finishPods": 1, "clonePod": 3, "gracefulDelete": 2}}
	rapid.Check(t, func(rt *rapid.T) {
		col.Case()
		// the world is only used as a generator of realistic objects here (no scans)
		cfg := world.DrawConfig(rt, profile)
		w := world.New(cfg)
		w.Init(rt)
		steps := rapid.IntRange(3, 12).Draw(rt, "steps")
		for i := 0; i < steps; i++ {
			a, _ := w.DrawAction(rt, profile)
			if a.Op == "scan" || a.Op == "seq" || a.Op == "advance" {
				continue
			}
			w.Apply(a)
		}
		api := &miniAPI{}
		for _, name := range w.K.SortedNames() {
			n := w.K.Nodes[name].DeepCopy()
			n.ResourceVersion = "7"
			n.UID = types.UID("uid-" + name)
			api.nodes = append(api.nodes, n)
		}
		for _, p := range w.Pods {
			q := p.DeepCopy()
			q.Namespace = "default"
			q.ResourceVersion = "7"
			api.pods = append(api.pods, q)
		}
		srv := httptest.NewServer(api)
		defer srv.Close()
		cs, err := kubernetes.NewForConfig(&rest.Config{Host: srv.URL})
		if err != nil {
			rt.Fatalf("harness: %v", err)
		}
		var groups []controller.NodeGroupOptions
		for _, g := range cfg.Groups {
			groups = append(groups, g.Opts)
		}
		stop := make(chan struct{})
		defer close(stop)
		var client *controller.Client
		done := make(chan error, 1)
		go func() {
			var e error
			client, e = controller.NewClient(cs, groups, stop)
			done <- e
		}()
		select {
		case e := <-done:
			if e != nil {
				rt.Fatalf("harness: NewClient: %v", e)
			}
		case <-time.After(60 * time.Second):
			rt.Fatalf("harness: NewClient did not return within 60 s (inconclusive)")
		}
		col.Eval(1)
		report := func(props []string, sig, f string, a ...any) {
			for _, p := range props {
				if p == prop {
					fail(rt, dumpPath(), prop+":wiring-"+sig, f, a...)
				}
			}
		}
		nontrivial := false
		for g, gs := range cfg.Groups {
			l := client.Listers[gs.Opts.Name]
			if l == nil {
				report([]string{prop}, "no-lister", "no lister for group %q", gs.Opts.Name)
				continue
			}
			gotNodes, err := l.Nodes.List()
			if err != nil {
				rt.Fatalf("harness: %v", err)
			}
			gotPods, err := l.Pods.List()
			if err != nil {
				rt.Fatalf("harness: %v", err)
			}
			// nodes
			want := map[string]*v1.Node{}
			for _, n := range api.nodes {
				if n.Labels[gs.Opts.LabelKey] == gs.Opts.LabelValue && labels.Set(n.Labels).Has(gs.Opts.LabelKey) {
					want[n.Name] = n
				}
			}
			got := map[string]*v1.Node{}
			for _, n := range gotNodes {
				got[n.Name] = n
			}
			var names []string
			for n := range want {
				names = append(names, n)
			}
			for n := range got {
				if want[n] == nil {
					names = append(names, n)
				}
			}
			sort.Strings(names)
			for _, name := range names {
				wn, gn := want[name], got[name]
				if wn == nil || gn == nil {
					report([]string{"C12", "C14", "C09", "C08"}, "node-membership", "group %q: node %s served=%v listed=%v", gs.Opts.Name, name, wn != nil, gn != nil)
					continue
				}
				for _, f := range nodeFields {
					if !equality.Semantic.DeepEqual(f.get(wn), f.get(gn)) {
						report(f.props, "node-field:"+f.path, "group %q node %s: %s served as %v, listed as %v", gs.Opts.Name, name, f.path, f.get(wn), f.get(gn))
					}
				}
			}
			// pods
			wantP := map[string]*v1.Pod{}
			for _, p := range api.pods {
				if p.Status.Phase == v1.PodSucceeded || p.Status.Phase == v1.PodFailed {
					continue
				}
				if w.PodInGroup(p, g) == ref.Yes {
					wantP[p.Namespace+"/"+p.Name] = p
				} else if w.PodInGroup(p, g) == ref.Either {
					wantP[p.Namespace+"/"+p.Name] = nil // either way
				}
			}
			gotP := map[string]*v1.Pod{}
			for _, p := range gotPods {
				gotP[p.Namespace+"/"+p.Name] = p
			}
			for name, wp := range wantP {
				gp := gotP[name]
				if wp == nil {
					continue
				}
				if gp == nil {
					report([]string{"C14", "C13", "C01", "C05", "C06"}, "pod-missing", "group %q: pod %s is served and attributed to the group but not listed", gs.Opts.Name, name)
					continue
				}
				for _, f := range podFields {
					if !equality.Semantic.DeepEqual(f.get(wp), f.get(gp)) {
						report(f.props, "pod-field:"+f.path, "group %q pod %s: %s served as %v, listed as %v", gs.Opts.Name, name, f.path, f.get(wp), f.get(gp))
					}
				}
			}
			for name := range gotP {
				if _, ok := wantP[name]; !ok {
					report([]string{"C14", "C13", "C05", "C06"}, "pod-extra", "group %q: pod %s is listed but not attributed to the group by the documented rule", gs.Opts.Name, name)
				}
			}
			if len(want) >= 2 && len(wantP) >= 1 {
				nontrivial = true
			}
		}
		if nontrivial {
			col.Nontrivial(fmt.Sprintf("wiring|%d|%d|%d|%x", len(cfg.Groups), len(api.nodes), len(api.pods), hashStr(fmt.Sprint(w.Dump()))))
			col.Sample(map[string]any{"groups": len(cfg.Groups), "nodes": len(api.nodes), "pods": len(api.pods)})
		}
	})
}

func TestWiringC01(t *testing.T) { wiringCheck(t, "C01") }
func TestWiringC05(t *testing.T) { wiringCheck(t, "C05") }
func TestWiringC08(t *testing.T) { wiringCheck(t, "C08") }
func TestWiringC09(t *testing.T) { wiringCheck(t, "C09") }
func TestWiringC10(t *testing.T) { wiringCheck(t, "C10") }
func TestWiringC13(t *testing.T) { wiringCheck(t, "C13") }
func TestWiringC14(t *testing.T) { wiringCheck(t, "C14") }
func TestWiringC15(t *testing.T) { wiringCheck(t, "C15") }
func TestWiringC19(t *testing.T) { wiringCheck(t, "C19") }
