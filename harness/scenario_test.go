//go:build verif

package verifharness

import (
	"testing"
	"testing/synctest"
	"time"

	"github.com/atlassian/escalator/pkg/controller"

	"verifharness/world"
)

func scenarioConfig() world.Config {
	o := controller.NodeGroupOptions{Name: "grp0", LabelKey: "pool", LabelValue: "v0", CloudProviderGroupName: "asg-0", MinNodes: 2, MaxNodes: 8,
		TaintLowerCapacityThresholdPercent: 10, TaintUpperCapacityThresholdPercent: 40, ScaleUpThresholdPercent: 70, SlowNodeRemovalRate: 1, FastNodeRemovalRate: 2,
		SoftDeleteGracePeriod: "30s", HardDeleteGracePeriod: "90s", ScaleUpCoolDownPeriod: "45s"}
	return world.Config{Groups: []world.GroupSpec{{Opts: o, NodeCPU: 1000, NodeMem: 1_000_000_000, ASGMin: 0, ASGMax: 10, InitNodes: 3}}}
}

// TestScenarioLockReleaseBelowMin: a scale-up, then the group drops below min_nodes during the
// cool-down; the first scan after the cool-down must restore capacity (C02 release half).
func TestScenarioLockReleaseBelowMin(t *testing.T) {
	synctest.Test(t, func(t *testing.T) {
		w := world.New(scenarioConfig())
		w.Apply(world.Action{Op: "launch", Group: 0, N: 3, Ages: []int64{300, 200, 100}})
		w.Apply(world.Action{Op: "setPods", Group: 0, Pods: []world.PodSpec{{Group: 0, Via: "selector", CPU: 2900, Mem: 1000}}})
		check := func(rec *world.ScanRecord) {
			for _, v := range w.CheckAll(rec) {
				if !isKnown(v.Sig) {
					t.Fatalf("VIOLATION %s\n%s", v.String(), rec.Describe(w))
				}
			}
		}
		rec, _ := w.Apply(world.Action{Op: "scan", Flag: true})
		check(rec)
		if !rec.Groups[0].ScaleUpOK {
			t.Fatalf("scenario broken: no scale-up\n%s", rec.Describe(w))
		}
		w.Apply(world.Action{Op: "cordon", Node: "n0-001", Flag: true})
		w.Apply(world.Action{Op: "cordon", Node: "n0-002", Flag: true})
		w.Apply(world.Action{Op: "advance", D: 10 * time.Second})
		rec, _ = w.Apply(world.Action{Op: "scan", Flag: true})
		check(rec) // inside the cool-down: nothing may happen
		w.Apply(world.Action{Op: "advance", D: 36 * time.Second})
		rec, _ = w.Apply(world.Action{Op: "scan", Flag: true})
		check(rec) // past the cool-down, one untainted node < min 2: must recover
		if len(rec.Groups[0].Increase) == 0 {
			t.Fatalf("VIOLATION C02:lock-outlives-cooldown (scenario)\n%s", rec.Describe(w))
		}
	})
}
