//go:build verif

package verifharness

import (
	"fmt"
	"os"
	"sort"
	"strings"
	"testing"

	"pgregory.net/rapid"

	"verifharness/ref"
	"verifharness/sim"
	"verifharness/world"
)

// writeSeq renders the mutating calls of one group's segment in a form that does not
// depend on instance ids (terminations are named by the node they back).
func writeSeq(rec *world.ScanRecord, gr *world.GroupRec) []string {
	var out []string
	for _, e := range gr.Seg {
		switch {
		case e.IsK8sWrite():
			out = append(out, fmt.Sprintf("%s %s {%s}", e.Kind, e.Node, e.SentBrief))
		case e.Kind == sim.ATerminateInASG:
			name := "?"
			if len(e.IDs) == 1 {
				if n := rec.NodeForInstance(e.IDs[0]); n != nil {
					name = n.Name
				}
			}
			out = append(out, fmt.Sprintf("%s %s ok=%v", e.Kind, name, e.OK()))
		case e.Kind == sim.ASetDesired:
			out = append(out, fmt.Sprintf("%s %s %d ok=%v", e.Kind, e.ASG, e.Value, e.OK()))
		case e.Kind == sim.ACreateFleet:
			out = append(out, fmt.Sprintf("%s %d ok=%v", e.Kind, e.Value, e.OK()))
		case e.Kind == sim.AAttach, e.Kind == sim.ATerminateInst:
			out = append(out, fmt.Sprintf("%s %s n=%d ok=%v", e.Kind, e.ASG, len(e.IDs), e.OK()))
		case e.IsAWSWrite():
			out = append(out, e.Kind)
		}
	}
	return out
}

type scanPair struct {
	p, t   *world.ScanRecord
	pw, tw *world.World
}

// twinOpts describes one metamorphic twin check.
type twinOpts struct {
	prop    string
	profile *world.Profile
	// choose draws the perturbation after the primary run (it may look at the primary world);
	// it returns nil if this history offers nothing to perturb.
	choose func(rt *rapid.T, pw *world.World, scans []*world.ScanRecord) *perturbation
}

type perturbation struct {
	label string
	cfg   func(c *world.Config)
	log   func(log []world.Action) []world.Action
	// compare judges scan i of both runs; stop ends the comparison (legitimate divergence)
	compare func(i int, sp scanPair) (v *world.Violation, stop bool, nontrivial string)
}

func cloneConfig(c world.Config) world.Config {
	out := world.Config{GlobalDry: c.GlobalDry}
	out.Groups = append(out.Groups, c.Groups...)
	return out
}

func runTwin(rt *rapid.T, o *twinOpts, col collectorLike) {
	var pw *world.World
	var scans []*world.ScanRecord
	rapid.SyncTest(rt, func(rt *rapid.T) {
		cfg := world.DrawConfig(rt, o.profile)
		pw = world.New(cfg)
		pw.Init(rt)
		col.Case()
		rt.Repeat(map[string]func(*rapid.T){"step": func(rt *rapid.T) {
			a, _ := pw.DrawAction(rt, o.profile)
			pw.Apply(a)
			scans = append(scans, pw.DrainRecs()...)
		}})
	})
	if len(scans) == 0 {
		return
	}
	pert := o.choose(rt, pw, scans)
	if pert == nil {
		col.Class("twin:nothing-to-perturb")
		return
	}
	rapid.SyncTest(rt, func(rt *rapid.T) {
		cfg := cloneConfig(pw.Cfg)
		if pert.cfg != nil {
			pert.cfg(&cfg)
		}
		log := pw.Log
		if pert.log != nil {
			log = pert.log(append([]world.Action{}, pw.Log...))
		}
		tw := world.New(cfg)
		i := 0
		stopped := false
		for _, a := range log {
			rec, _ := tw.Apply(a)
			if rec == nil || stopped {
				continue
			}
			if i >= len(scans) {
				break
			}
			p := scans[i]
			col.Eval(1)
			if p.View == nil || rec.View == nil || p.Err != nil || rec.Err != nil || p.Panic != nil || rec.Panic != nil {
				col.Class("twin:diverged-exit")
				stopped = true
				continue
			}
			if os.Getenv("VERIF_DEBUG_TWIN") != "" {
				fmt.Fprintf(os.Stderr, "=== compare scan %d\nPRIMARY %s\nTWIN %s\n", i, p.Describe(pw), rec.Describe(tw))
			}
			v, stop, nt := pert.compare(i, scanPair{p, rec, pw, tw})
			if v != nil {
				if isKnown(v.Sig) {
					col.KnownFinding(v.Sig)
				} else {
					var b strings.Builder
					fmt.Fprintf(&b, "VIOLATION %s\nperturbation: %s\n\nprimary history:\n%s\nprimary scan:\n%s\ntwin scan:\n%s\n", v.String(), pert.label, pw.Dump(), p.Describe(pw), rec.Describe(tw))
					if path := dumpPath(); path != "" {
						_ = writeFile(path, b.String())
					}
					rt.Logf("%s", b.String())
					rt.Fatalf("VIOLATION %s", v.Sig)
				}
			}
			if nt != "" {
				col.Nontrivial(nt)
				col.Class("twin:nontrivial")
			}
			if stop {
				col.Class("twin:diverged-legitimately")
				stopped = true
			}
			i++
		}
	})
}

type collectorLike interface {
	Case()
	Eval(int)
	Class(string)
	Nontrivial(string)
	KnownFinding(string)
}

func sameSeq(a, b []string) bool { return strings.Join(a, "\n") == strings.Join(b, "\n") }

func twinWeights() map[string]int {
	return map[string]int{"scan": 12, "targetUtil": 10, "advance": 7, "addPods": 2, "clearNode": 2, "launch": 2, "cordon": 3, "taintExt": 4,
		"removeTaint": 1, "annotate": 2, "schedule": 1, "finishPods": 1, "asgEdit": 4}
}

// ---------------------------------------------------------------- C12 / C11: another group changes

// otherGroupCompare: every group except `changed` must show the same writes in both runs,
// provided its processing started at the same virtual time.
func otherGroupCompare(prop, sigPrefix string, changed int) func(i int, sp scanPair) (*world.Violation, bool, string) {
	return func(i int, sp scanPair) (*world.Violation, bool, string) {
		nt := ""
		for g, pg := range sp.p.Groups {
			if g == changed {
				continue
			}
			tg := sp.t.Groups[g]
			if pg.Processed != tg.Processed {
				v := world.Violation{Prop: prop, Sig: prop + ":" + sigPrefix + "-processing-differs", Msg: fmt.Sprintf("scan %d group %d processed=%v in the primary run, %v in the twin", i, g, pg.Processed, tg.Processed)}
				return &v, false, ""
			}
			if !pg.Processed {
				continue
			}
			if !pg.Start.Equal(tg.Start) {
				return nil, true, ""
			}
			a, b := writeSeq(sp.p, pg), writeSeq(sp.t, tg)
			if !sameSeq(a, b) {
				v := world.Violation{Prop: prop, Sig: prop + ":" + sigPrefix + "-changes-other-group", Msg: fmt.Sprintf("scan %d: group %d acted differently although only group %d differs\nprimary: %v\ntwin:    %v", i, g, changed, a, b)}
				return &v, false, ""
			}
			cp, ct := sp.p.Groups[changed], sp.t.Groups[changed]
			if len(a) > 0 && !sameSeq(writeSeq(sp.p, cp), writeSeq(sp.t, ct)) {
				nt = fmt.Sprintf("%s|scan-acts=%d|changed-differs", sigPrefix, minI(len(a), 3))
			}
		}
		return nil, false, nt
	}
}

func TestC12Twin(t *testing.T) {
	p := &world.Profile{Name: "isolation-twin", OwnNodesOnly: true, MinGroups: 2, MaxGroups: 3, Dry: 1, Auto: 2, Default: 1, MaxInit: 6, SmallGraces: true, Steps: 30, Weights: twinWeights()}
	col := newCollector(t, "C12", "metamorphic twin: the recorded history is replayed on a world that differs only inside one group (its pods multiplied, its thresholds/rates changed, its nodes pre-tainted); every other group's writes must be identical scan by scan; non-trivial = a scan in which an unchanged group acts while the changed group's own actions differ between the runs")
	rapid.Check(t, func(rt *rapid.T) {
		runTwin(rt, &twinOpts{prop: "C12", profile: p, choose: func(rt *rapid.T, pw *world.World, scans []*world.ScanRecord) *perturbation {
			changed := rapid.IntRange(0, len(pw.Cfg.Groups)-1).Draw(rt, "changedGroup")
			kind := rapid.SampledFrom([]string{"pods", "thresholds", "rates", "pretaint", "graces", "faults", "outOfBounds", "outOfBounds"}).Draw(rt, "perturbation")
			if kind == "outOfBounds" && rapid.Bool().Draw(rt, "first") {
				changed = 0 // every other group is processed after the failing one
			}
			pt := &perturbation{label: fmt.Sprintf("group %d: %s", changed, kind), compare: otherGroupCompare("C12", "other-group-change", changed)}
			switch kind {
			case "pods": // a large extra pod for the changed group right after start-up
				pt.log = func(log []world.Action) []world.Action {
					extra := world.Action{Op: "addPods", Group: changed, Pods: []world.PodSpec{{Group: changed, Via: map[bool]string{true: "none", false: "selector"}[pw.Cfg.Groups[changed].Opts.Name == "default"],
						CPU: pw.Cfg.Groups[changed].NodeCPU * 3, Mem: pw.Cfg.Groups[changed].NodeMem * 2}}}
					at := 0
					for at < len(log) && log[at].Op == "launch" {
						at++
					}
					return append(append(append([]world.Action{}, log[:at]...), extra), log[at:]...)
				}
			case "outOfBounds": // the changed group gets more nodes than its maximum: its scans fail non-fatally
				extra := int(pw.Cfg.Groups[changed].ASGMax) + pw.Cfg.Groups[changed].Opts.MaxNodes + 2
				if extra > 24 {
					extra = 24
				}
				pt.log = func(log []world.Action) []world.Action {
					at := 0
					for at < len(log) && log[at].Op == "launch" {
						at++
					}
					ins := world.Action{Op: "launch", Group: changed, N: extra, Ages: []int64{0}}
					return append(append(append([]world.Action{}, log[:at]...), ins), log[at:]...)
				}
			case "faults": // every API call on the changed group's nodes fails during one drawn scan
				var targets []string
				for _, n := range scans[0].Groups[changed].GV.Nodes {
					targets = append(targets, n.Name)
				}
				if len(targets) == 0 {
					return nil
				}
				nth := rapid.IntRange(0, len(scans)-1).Draw(rt, "faultedScan")
				pt.log = func(log []world.Action) []world.Action {
					var fs []sim.Fault
					for _, name := range targets {
						fs = append(fs, sim.Fault{Kind: "", Nth: -1, Node: name})
					}
					out := []world.Action{}
					seen := 0
					for _, a := range log {
						if a.Op == "scan" {
							if seen == nth {
								out = append(out, world.Action{Op: "fault", Faults: fs})
							}
							seen++
						}
						out = append(out, a)
					}
					return out
				}
			case "thresholds":
				pt.cfg = func(c *world.Config) {
					o := &c.Groups[changed].Opts
					o.TaintLowerCapacityThresholdPercent, o.TaintUpperCapacityThresholdPercent, o.ScaleUpThresholdPercent = 45, 60, 61
				}
			case "rates":
				pt.cfg = func(c *world.Config) {
					o := &c.Groups[changed].Opts
					o.SlowNodeRemovalRate, o.FastNodeRemovalRate = o.FastNodeRemovalRate+1, o.FastNodeRemovalRate+3
				}
			case "graces":
				pt.cfg = func(c *world.Config) {
					o := &c.Groups[changed].Opts
					o.SoftDeleteGracePeriod, o.HardDeleteGracePeriod, o.ScaleUpCoolDownPeriod = "3s", "5s", "7s"
				}
			default:
				var targets []string
				for _, n := range scans[0].Groups[changed].GV.Nodes {
					if len(targets) < 3 {
						targets = append(targets, n.Name)
					}
				}
				pt.log = func(log []world.Action) []world.Action {
					var extra []world.Action
					at := 0
					for at < len(log) && log[at].Op == "launch" {
						at++
					}
					for _, name := range targets {
						extra = append(extra, world.Action{Op: "taint", Node: name, Key: ref.TaintKey, Val: "946600000", Effect: "NoSchedule"})
					}
					return append(append(append([]world.Action{}, log[:at]...), extra...), log[at:]...)
				}
			}
			return pt
		}}, col)
	})
}

func TestC11Twin(t *testing.T) {
	p := &world.Profile{Name: "dry-twin", OwnNodesOnly: true, MinGroups: 2, MaxGroups: 3, Dry: 0, Auto: 1, Default: 1, MaxInit: 6, SmallGraces: true, Steps: 30, Weights: twinWeights()}
	col := newCollector(t, "C11", "metamorphic twin: the recorded history is replayed with dry mode enabled on one group only; the other groups' writes must be identical scan by scan and the dry group must write nothing; non-trivial = a scan in which the flipped group wrote in the primary run while another group acted")
	rapid.Check(t, func(rt *rapid.T) {
		runTwin(rt, &twinOpts{prop: "C11", profile: p, choose: func(rt *rapid.T, pw *world.World, scans []*world.ScanRecord) *perturbation {
			changed := rapid.IntRange(0, len(pw.Cfg.Groups)-1).Draw(rt, "dryGroup")
			base := otherGroupCompare("C11", "dry-flag", changed)
			return &perturbation{label: fmt.Sprintf("group %d dry_mode=true", changed),
				cfg: func(c *world.Config) { c.Groups[changed].Opts.DryMode = true },
				compare: func(i int, sp scanPair) (*world.Violation, bool, string) {
					tg := sp.t.Groups[changed]
					if w := writeSeq(sp.t, tg); len(w) > 0 {
						v := world.Violation{Prop: "C11", Sig: "C11:write-in-dry-mode:twin", Msg: fmt.Sprintf("scan %d: dry group %d wrote %v", i, changed, w)}
						return &v, false, ""
					}
					return base(i, sp)
				}}
		}}, col)
	})
}

// ---------------------------------------------------------------- C10: the annotation is absent

func names(rec *world.ScanRecord, gr *world.GroupRec) (taint, untaint, removed, requests []string) {
	taint = append(taint, gr.TaintedNow()...)
	untaint = append(untaint, gr.UntaintedNow()...)
	for _, id := range gr.TermOK {
		if n := rec.NodeForInstance(id); n != nil {
			removed = append(removed, n.Name)
		}
	}
	for _, e := range gr.Increase {
		requests = append(requests, fmt.Sprintf("%s:%d", e.Kind, e.Value))
	}
	sort.Strings(taint)
	sort.Strings(untaint)
	sort.Strings(removed)
	return
}

func TestC10Twin(t *testing.T) {
	p := &world.Profile{Name: "annot-twin", MinGroups: 1, MaxGroups: 2, Auto: 1, MaxInit: 8, SmallGraces: true, Steps: 30,
		Weights: with(twinWeights(), "annotate", 8, "taintExt", 7, "advance", 9, "clearNode", 3)}
	col := newCollector(t, "C10", "metamorphic twin: the recorded history is replayed without the no-delete annotation on one node X; per scan the tainted / untainted sets and cloud requests must be identical, and the set removed with the annotation must contain everything removed without it except X; an empty annotation value must make no difference at all; non-trivial = a scan in which X is removed in the twin (so the annotation is what protected it) or other nodes are removed next to a protected X")
	rapid.Check(t, func(rt *rapid.T) {
		runTwin(rt, &twinOpts{prop: "C10", profile: p, choose: func(rt *rapid.T, pw *world.World, scans []*world.ScanRecord) *perturbation {
			var annotated []string
			seen := map[string]bool{}
			onlyEmpty := map[string]bool{}
			for _, a := range pw.Log {
				if a.Op == "annotate" && !a.Flag {
					if !seen[a.Node] {
						annotated = append(annotated, a.Node)
						onlyEmpty[a.Node] = true
					}
					seen[a.Node] = true
					if a.Val != "" {
						onlyEmpty[a.Node] = false
					}
				}
			}
			if len(annotated) == 0 {
				return nil
			}
			x := rapid.SampledFrom(annotated).Draw(rt, "node")
			empty := onlyEmpty[x]
			return &perturbation{label: "no annotation on " + x,
				log: func(log []world.Action) []world.Action {
					var out []world.Action
					for _, a := range log {
						if a.Op == "annotate" && a.Node == x {
							a = world.Action{Op: "advance"} // placeholder keeps indices aligned; zero duration
						}
						out = append(out, a)
					}
					return out
				},
				compare: func(i int, sp scanPair) (*world.Violation, bool, string) {
					nt := ""
					stop := false
					for g, pg := range sp.p.Groups {
						tg := sp.t.Groups[g]
						if pg.Dry || !pg.Processed || !tg.Processed {
							continue
						}
						pt, pu, pr, pq := names(sp.p, pg)
						tt, tu, tr, tq := names(sp.t, tg)
						if !sameSeq(pt, tt) || !sameSeq(pu, tu) || !sameSeq(pq, tq) {
							v := world.Violation{Prop: "C10", Sig: "C10:annotation-changes-scaling", Msg: fmt.Sprintf("scan %d group %d: with annotation taint=%v untaint=%v requests=%v; without taint=%v untaint=%v requests=%v", i, g, pt, pu, pq, tt, tu, tq)}
							return &v, false, ""
						}
						prs := map[string]bool{}
						for _, n := range pr {
							prs[n] = true
						}
						for _, n := range tr {
							if n != x && !prs[n] {
								v := world.Violation{Prop: "C10", Sig: "C10:annotation-holds-back-others", Msg: fmt.Sprintf("scan %d group %d: node %s is removed without the annotation on %s but not with it (with: %v, without: %v)", i, g, n, x, pr, tr)}
								return &v, false, ""
							}
						}
						if empty && !sameSeq(pr, tr) {
							v := world.Violation{Prop: "C10", Sig: "C10:empty-annotation-protects", Msg: fmt.Sprintf("scan %d group %d: an empty annotation value changed removals: with %v without %v", i, g, pr, tr)}
							return &v, false, ""
						}
						if !sameSeq(pr, tr) {
							stop = true // X (at least) is gone in the twin: the worlds differ from here on
							nt = fmt.Sprintf("annot-twin|x-removed|others=%d", minI(len(pr), 2))
						} else if len(pr) > 0 {
							if xn := sp.p.View.NodeByName(x); xn != nil && ref.NoDelete(xn) {
								if _, ok := ref.HasTaint(xn, ref.TaintKey); ok {
									nt = fmt.Sprintf("annot-twin|others-removed-next-to-x|%d", minI(len(pr), 2))
								}
							}
						}
					}
					return nil, stop, nt
				}}
		}}, col)
	})
}

// ---------------------------------------------------------------- C09: a cordoned node's size changes

func TestC09Twin(t *testing.T) {
	p := &world.Profile{Name: "cordon-twin", MinGroups: 1, MaxGroups: 2, Auto: 1, MaxInit: 8, SmallGraces: true, Steps: 30,
		Weights: with(twinWeights(), "cordon", 8, "targetUtil", 12)}
	col := newCollector(t, "C09", "metamorphic twin: the recorded history is replayed on a world in which a node's allocatable resources are multiplied by 1000 (or set to 1) at the moment it is cordoned; while it stays cordoned every scan with at least one untainted node must produce the same writes; non-trivial = a compared scan in which the group acts (taints, untaints or requests capacity) while the resized node is cordoned")
	rapid.Check(t, func(rt *rapid.T) {
		runTwin(rt, &twinOpts{prop: "C09", profile: p, choose: func(rt *rapid.T, pw *world.World, scans []*world.ScanRecord) *perturbation {
			var cands []int
			for i, a := range pw.Log {
				if a.Op == "cordon" && a.Flag {
					cands = append(cands, i)
				}
			}
			if len(cands) == 0 {
				return nil
			}
			at := rapid.SampledFrom(cands).Draw(rt, "cordonAction")
			x := pw.Log[at].Node
			factor := rapid.SampledFrom([]int{1000, 3, 7}).Draw(rt, "factor")
			// scans after which X is uncordoned again do not count
			uncordonedAtScan := -1
			scanIdx := 0
			for i, a := range pw.Log {
				if a.Op == "scan" {
					scanIdx++
				}
				if i > at && a.Op == "cordon" && a.Node == x && !a.Flag && uncordonedAtScan < 0 {
					uncordonedAtScan = scanIdx
				}
			}
			return &perturbation{label: fmt.Sprintf("allocatable of cordoned %s x%d", x, factor),
				log: func(log []world.Action) []world.Action {
					out := append([]world.Action{}, log[:at+1]...)
					out = append(out, world.Action{Op: "resizeNode", Node: x, N: factor})
					return append(out, log[at+1:]...)
				},
				compare: func(i int, sp scanPair) (*world.Violation, bool, string) {
					if uncordonedAtScan >= 0 && i >= uncordonedAtScan {
						return nil, true, ""
					}
					nt := ""
					for g, pg := range sp.p.Groups {
						tg := sp.t.Groups[g]
						xn := sp.p.View.NodeByName(x)
						if xn == nil || !xn.Spec.Unschedulable || pw.GroupOfNode(xn) != g || pg.Dry {
							continue
						}
						a, b := writeSeq(sp.p, pg), writeSeq(sp.t, tg)
						if len(pg.GV.Untainted) == 0 {
							// scaling from zero uses the "last seen node size", which may legitimately
							// be X's: not judged, and if it made a difference the worlds have diverged
							if !sameSeq(a, b) {
								return nil, true, ""
							}
							continue
						}
						if !sameSeq(a, b) {
							v := world.Violation{Prop: "C09", Sig: "C09:cordoned-node-size-matters", Msg: fmt.Sprintf("scan %d group %d: resizing cordoned node %s changed the actions\nprimary: %v\ntwin:    %v", i, g, x, a, b)}
							return &v, false, ""
						}
						if len(a) > 0 {
							nt = fmt.Sprintf("cordon-twin|acts=%d|factor=%d", minI(len(a), 3), factor)
						}
					}
					return nil, false, nt
				}}
		}}, col)
	})
}
