//go:build verif

package verifharness

import (
	"fmt"
	"sort"
	"strings"
	"testing"

	"github.com/atlassian/escalator/pkg/controller"
	v1 "k8s.io/api/core/v1"
	metav1 "k8s.io/apimachinery/pkg/apis/meta/v1"
	"pgregory.net/rapid"

	"verifharness/ref"
	"verifharness/sim"
)

const (
	attrKey   = "customer"
	attrValue = "shared"
)

type namedSel struct {
	name string
	sel  map[string]string
}

type namedAff struct {
	name string
	aff  *v1.Affinity
}

func req(key string, op v1.NodeSelectorOperator, vals ...string) v1.NodeSelectorRequirement {
	return v1.NodeSelectorRequirement{Key: key, Operator: op, Values: vals}
}

func nodeAff(terms ...v1.NodeSelectorTerm) *v1.Affinity {
	return &v1.Affinity{NodeAffinity: &v1.NodeAffinity{RequiredDuringSchedulingIgnoredDuringExecution: &v1.NodeSelector{NodeSelectorTerms: terms}}}
}

func exprTerm(rs ...v1.NodeSelectorRequirement) v1.NodeSelectorTerm {
	return v1.NodeSelectorTerm{MatchExpressions: rs}
}

func attrSelectors() []namedSel {
	return []namedSel{
		{"absent", nil},
		{"empty", map[string]string{}},
		{"otherKey", map[string]string{"team": attrValue}},
		{"otherValue", map[string]string{attrKey: "dedicated"}},
		{"prefixValue", map[string]string{attrKey: attrValue + "x"}},
		{"emptyValue", map[string]string{attrKey: ""}},
		{"match", map[string]string{attrKey: attrValue}},
		{"matchPlus", map[string]string{attrKey: attrValue, "zone": "a"}},
	}
}

func attrAffinities() []namedAff {
	out := []namedAff{
		{"nil", nil},
		{"emptyStruct", &v1.Affinity{}},
		{"nodeAffinityEmpty", &v1.Affinity{NodeAffinity: &v1.NodeAffinity{}}},
		{"requiredEmpty", nodeAff()},
		{"termNoExpr", nodeAff(v1.NodeSelectorTerm{})},
		{"exprOtherKey", nodeAff(exprTerm(req("team", v1.NodeSelectorOpIn, attrValue)))},
		{"fieldsOnly", &v1.Affinity{NodeAffinity: &v1.NodeAffinity{RequiredDuringSchedulingIgnoredDuringExecution: &v1.NodeSelector{NodeSelectorTerms: []v1.NodeSelectorTerm{
			{MatchFields: []v1.NodeSelectorRequirement{req(attrKey, v1.NodeSelectorOpIn, attrValue)}}}}}}},
		{"preferredOnly", &v1.Affinity{NodeAffinity: &v1.NodeAffinity{PreferredDuringSchedulingIgnoredDuringExecution: []v1.PreferredSchedulingTerm{
			{Weight: 1, Preference: exprTerm(req(attrKey, v1.NodeSelectorOpIn, attrValue))}}}}},
		{"podAffinity", &v1.Affinity{PodAffinity: &v1.PodAffinity{RequiredDuringSchedulingIgnoredDuringExecution: []v1.PodAffinityTerm{{TopologyKey: "zone"}}}}},
		{"podAntiAffinity", &v1.Affinity{PodAntiAffinity: &v1.PodAntiAffinity{RequiredDuringSchedulingIgnoredDuringExecution: []v1.PodAffinityTerm{{TopologyKey: "zone"}}}}},
		{"podAffinityEmpty", &v1.Affinity{PodAffinity: &v1.PodAffinity{}}},
		{"twoTermsSecondMatches", nodeAff(exprTerm(req("team", v1.NodeSelectorOpIn, "x")), exprTerm(req(attrKey, v1.NodeSelectorOpIn, attrValue)))},
		{"twoExprSecondMatches", nodeAff(exprTerm(req("team", v1.NodeSelectorOpExists), req(attrKey, v1.NodeSelectorOpIn, attrValue)))},
		{"twoExprSameKeyNotInThenIn", nodeAff(exprTerm(req(attrKey, v1.NodeSelectorOpNotIn, "x"), req(attrKey, v1.NodeSelectorOpIn, attrValue)))},
	}
	ops := []v1.NodeSelectorOperator{v1.NodeSelectorOpIn, v1.NodeSelectorOpNotIn, v1.NodeSelectorOpExists, v1.NodeSelectorOpDoesNotExist, v1.NodeSelectorOpGt, v1.NodeSelectorOpLt, "in", ""}
	vals := [][]string{nil, {"other"}, {attrValue}, {"other", attrValue}, {attrValue + "x"}, {strings.ToUpper(attrValue)}}
	for _, op := range ops {
		for _, vs := range vals {
			out = append(out, namedAff{fmt.Sprintf("%s%v", op, vs), nodeAff(exprTerm(req(attrKey, op, vs...)))})
		}
	}
	return out
}

func boolp(b bool) *bool { return &b }

type namedOwner struct {
	name string
	refs []metav1.OwnerReference
}

func attrOwners() []namedOwner {
	return []namedOwner{
		{"none", nil},
		{"replicaSet", []metav1.OwnerReference{{Kind: "ReplicaSet", Name: "rs"}}},
		{"daemonSet", []metav1.OwnerReference{{Kind: "DaemonSet", Name: "ds"}}},
		{"jobThenDaemonSet", []metav1.OwnerReference{{Kind: "Job", Name: "j"}, {Kind: "DaemonSet", Name: "ds"}}},
		{"daemonsetLowercase", []metav1.OwnerReference{{Kind: "daemonset", Name: "ds"}}},
		{"daemonSetController", []metav1.OwnerReference{{Kind: "DaemonSet", Name: "ds", Controller: boolp(true)}}},
		{"otherControllerPlusDaemonSet", []metav1.OwnerReference{{Kind: "Operator", Name: "op", Controller: boolp(true)}, {Kind: "DaemonSet", Name: "ds"}}},
		{"daemonSetPlusOtherController", []metav1.OwnerReference{{Kind: "DaemonSet", Name: "ds", Controller: boolp(false)}, {Kind: "ReplicaSet", Name: "rs", Controller: boolp(true)}}},
	}
}

var attrStatic = []string{"<absent>", "file", "api", ""}

func buildAttrPod(s namedSel, a namedAff, o namedOwner, static string) *v1.Pod {
	p := &v1.Pod{ObjectMeta: metav1.ObjectMeta{Name: fmt.Sprintf("%s/%s/%s/%s", s.name, a.name, o.name, static), Namespace: "ns", OwnerReferences: o.refs}}
	if static != "<absent>" {
		p.Annotations = map[string]string{ref.StaticSource: static}
	}
	p.Spec.NodeSelector = s.sel
	p.Spec.Affinity = a.aff
	p.Status.Phase = v1.PodRunning
	return p
}

func attrNodeLabels() []map[string]string {
	return []map[string]string{nil, {}, {"team": attrValue}, {attrKey: "dedicated"}, {attrKey: attrValue}, {attrKey: attrValue, "zone": "a"}, {attrKey: ""},
		{attrKey: attrValue + "x"}, {attrKey + "x": attrValue}, {attrKey: strings.ToUpper(attrValue)}}
}

// TestC14 enumerates the small-scope universe completely.
func TestC14(t *testing.T) {
	col := newCollector(t, "C14", "exhaustive small scope: nodeSelector (8 shapes) x affinity (14 structural shapes + 8 operators x 6 value lists on the key) x owner references (5) x static annotation (4), and 10 node label maps; each pod is judged through the exported filter constructors and through the real filtered listers, against an independent restatement of the property sentence; non-trivial = every shape but the all-absent one; distinct by shape name")
	col.Exhaustive = true
	labelled := controller.NewPodAffinityFilterFunc(attrKey, attrValue)
	deflt := controller.NewPodDefaultFilterFunc()
	nodeF := controller.NewNodeLabelFilterFunc(attrKey, attrValue)
	view := sim.NewView(sim.NewJournal())
	wantLabelled, wantDefault, maybeDefault := map[string]bool{}, map[string]bool{}, map[string]bool{}
	n := 0
	for _, s := range attrSelectors() {
		for _, a := range attrAffinities() {
			for _, o := range attrOwners() {
				for _, st := range attrStatic {
					p := buildAttrPod(s, a, o, st)
					n++
					col.Eval(2)
					want := ref.PodInLabelGroup(p, attrKey, attrValue)
					if got := labelled(p); got != want {
						t.Fatalf("VIOLATION C14:labelled-group-attribution\npod %s: filter says %v, property says %v", p.Name, got, want)
					}
					wd := ref.PodInDefaultGroup(p)
					if got := deflt(p); (wd == ref.Yes && !got) || (wd == ref.No && got) {
						t.Fatalf("VIOLATION C14:default-group-attribution\npod %s: filter says %v, property says %v", p.Name, got, wd == ref.Yes)
					}
					if wd == ref.Either {
						col.Class("default:ambiguous-empty-affinity")
						maybeDefault[p.Name] = true
					}
					if want {
						wantLabelled[p.Name] = true
					}
					if wd == ref.Yes {
						wantDefault[p.Name] = true
					}
					view.Pods = append(view.Pods, p)
					if !(s.name == "absent" && a.name == "nil" && o.name == "none" && st == "<absent>") {
						col.Nontrivial(p.Name)
					}
					if n%257 == 0 {
						col.Sample(map[string]any{"pod": p.Name, "labelled_group": want, "default_group": [...]string{"no", "yes", "either"}[wd]})
					}
				}
			}
		}
	}
	wantNodes := map[string]bool{}
	for i, l := range attrNodeLabels() {
		nd := &v1.Node{ObjectMeta: metav1.ObjectMeta{Name: fmt.Sprintf("node%d", i), Labels: l}}
		col.Eval(1)
		want := ref.NodeInGroup(nd, attrKey, attrValue)
		if got := nodeF(nd); got != want {
			t.Fatalf("VIOLATION C14:node-attribution\nnode labels %v: filter says %v, property says %v", l, got, want)
		}
		if want {
			wantNodes[nd.Name] = true
		}
		view.Nodes = append(view.Nodes, nd)
		col.Nontrivial(fmt.Sprintf("node%v", l))
	}
	// the same through the real listers
	opts := controller.NodeGroupOptions{Name: "shared", LabelKey: attrKey, LabelValue: attrValue}
	lst := controller.NewNodeGroupLister(view.PodLister(), view.NodeLister(), opts)
	checkLister := func(sig string, pods []*v1.Pod, want, maybe map[string]bool) {
		got := map[string]bool{}
		for _, p := range pods {
			got[p.Name] = true
		}
		var diff []string
		for k := range want {
			if !got[k] {
				diff = append(diff, "missing "+k)
			}
		}
		for k := range got {
			if !want[k] && !maybe[k] {
				diff = append(diff, "extra "+k)
			}
		}
		sort.Strings(diff)
		if len(diff) > 0 {
			t.Fatalf("VIOLATION C14:%s\n%s", sig, strings.Join(diff[:minI(len(diff), 20)], "\n"))
		}
	}
	pods, err := lst.Pods.List()
	if err != nil {
		t.Fatal(err)
	}
	checkLister("labelled-lister", pods, wantLabelled, nil)
	nodes, _ := lst.Nodes.List()
	gotN := map[string]bool{}
	for _, nd := range nodes {
		gotN[nd.Name] = true
	}
	if fmt.Sprint(gotN) != fmt.Sprint(wantNodes) {
		t.Fatalf("VIOLATION C14:node-lister\n got %v want %v", gotN, wantNodes)
	}
	opts.Name = controller.DefaultNodeGroup
	dl := controller.NewDefaultNodeGroupLister(view.PodLister(), view.NodeLister(), opts)
	pods, _ = dl.Pods.List()
	checkLister("default-lister", pods, wantDefault, maybeDefault)
	col.Cases = int64(n)
	col.Add("pod_shapes", n)
	col.Add("node_shapes", len(attrNodeLabels()))
}

// TestC14Random draws deeper shapes: several terms, several expressions, several selector entries.
func TestC14Random(t *testing.T) {
	col := newCollector(t, "C14", "random deeper shapes: 0-3 terms x 0-3 expressions over {key, other keys} x all operators x value lists, 0-3 selector entries, owners, annotations; non-trivial = at least two expressions or terms; distinct by a structural fingerprint")
	labelled := controller.NewPodAffinityFilterFunc(attrKey, attrValue)
	deflt := controller.NewPodDefaultFilterFunc()
	keys := []string{attrKey, attrKey, "team", attrKey + "x"}
	valsPool := []string{attrValue, attrValue, "other", "", attrValue + "x"}
	ops := []v1.NodeSelectorOperator{v1.NodeSelectorOpIn, v1.NodeSelectorOpIn, v1.NodeSelectorOpNotIn, v1.NodeSelectorOpExists, v1.NodeSelectorOpDoesNotExist, v1.NodeSelectorOpGt}
	rapid.Check(t, func(rt *rapid.T) {
		col.Case()
		p := &v1.Pod{ObjectMeta: metav1.ObjectMeta{Name: "p"}}
		fp := ""
		if ns := rapid.IntRange(0, 3).Draw(rt, "selEntries"); ns > 0 || rapid.Bool().Draw(rt, "emptySel") {
			p.Spec.NodeSelector = map[string]string{}
			for i := 0; i < ns; i++ {
				p.Spec.NodeSelector[rapid.SampledFrom(keys).Draw(rt, "selKey")] = rapid.SampledFrom(valsPool).Draw(rt, "selVal")
			}
			fp += fmt.Sprintf("sel%d", len(p.Spec.NodeSelector))
		}
		nt := rapid.IntRange(0, 3).Draw(rt, "terms")
		exprs := 0
		if nt > 0 || rapid.Bool().Draw(rt, "emptyRequired") {
			sel := &v1.NodeSelector{}
			for i := 0; i < nt; i++ {
				var term v1.NodeSelectorTerm
				for j, ne := 0, rapid.IntRange(0, 3).Draw(rt, "exprs"); j < ne; j++ {
					var vs []string
					for k, nv := 0, rapid.IntRange(0, 3).Draw(rt, "vals"); k < nv; k++ {
						vs = append(vs, rapid.SampledFrom(valsPool).Draw(rt, "val"))
					}
					r := req(rapid.SampledFrom(keys).Draw(rt, "key"), rapid.SampledFrom(ops).Draw(rt, "op"), vs...)
					if rapid.IntRange(0, 5).Draw(rt, "asField") == 0 {
						term.MatchFields = append(term.MatchFields, r)
					} else {
						term.MatchExpressions = append(term.MatchExpressions, r)
						exprs++
					}
				}
				sel.NodeSelectorTerms = append(sel.NodeSelectorTerms, term)
			}
			p.Spec.Affinity = &v1.Affinity{NodeAffinity: &v1.NodeAffinity{RequiredDuringSchedulingIgnoredDuringExecution: sel}}
			fp += fmt.Sprintf("|terms%d|exprs%d", nt, exprs)
		}
		if rapid.IntRange(0, 4).Draw(rt, "daemon") == 0 {
			p.OwnerReferences = []metav1.OwnerReference{{Kind: "ReplicaSet"}, {Kind: "DaemonSet"}}[:rapid.IntRange(1, 2).Draw(rt, "owners")]
			fp += fmt.Sprintf("|owners%d", len(p.OwnerReferences))
		}
		if rapid.IntRange(0, 4).Draw(rt, "static") == 0 {
			p.Annotations = map[string]string{ref.StaticSource: rapid.SampledFrom([]string{"file", "api"}).Draw(rt, "source")}
			fp += "|src=" + p.Annotations[ref.StaticSource]
		}
		col.Eval(2)
		want := ref.PodInLabelGroup(p, attrKey, attrValue)
		if got := labelled(p); got != want {
			fail(rt, dumpPath(), "C14:labelled-group-attribution", "pod %+v: filter says %v, property says %v", p.Spec, got, want)
		}
		wd := ref.PodInDefaultGroup(p)
		if got := deflt(p); (wd == ref.Yes && !got) || (wd == ref.No && got) {
			fail(rt, dumpPath(), "C14:default-group-attribution", "pod %+v: filter says %v, property says %v", p.Spec, got, wd == ref.Yes)
		}
		if nt >= 2 || exprs >= 2 {
			col.Nontrivial(fmt.Sprintf("%s|in=%v|def=%d", fp, want, wd))
			col.Sample(fmt.Sprintf("%s -> labelled=%v default=%d", fp, want, wd))
		}
	})
}
