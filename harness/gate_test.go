//go:build verif

package verifharness

import (
	"context"
	"encoding/json"
	"fmt"
	"os"
	"os/exec"
	"path/filepath"
	"regexp"
	"strings"
	"sync"
	"testing"
	"time"

	"github.com/atlassian/escalator/pkg/controller"
	"pgregory.net/rapid"
)

// The validation gate of cmd/main.go (setupNodeGroups) is the only caller of the validator.
// The real binary is built from the repository under test and started with generated
// node-group files; it either stops at the gate or goes on to the Kubernetes client set-up
// (which fails here, there is no cluster). Oracle: a group reported "[PASS]" satisfies every
// invariant of C16 (evaluated by unsafeReasons, independently of the validator), and the
// process gets past the gate only if every group does.

var (
	gateOnce sync.Once
	gateBin  string
	gateErr  error
)

func buildGateBinary() (string, error) {
	gateOnce.Do(func() {
		dir, err := os.MkdirTemp("", "verif-gate-")
		if err != nil {
			gateErr = err
			return
		}
		gateBin = filepath.Join(dir, "escalator-cmd")
		cmd := exec.Command("go", "build", "-o", gateBin, "./cmd")
		cmd.Dir = repoPath()
		cmd.Env = append(os.Environ(), "CGO_ENABLED=0")
		if out, err := cmd.CombinedOutput(); err != nil {
			gateErr = fmt.Errorf("building cmd/main.go: %v\n%s", err, out)
		}
	})
	return gateBin, gateErr
}

var gateLine = regexp.MustCompile(`msg="Validating options: \[(PASS|FAIL)\]" nodegroup=("?)([A-Za-z0-9_-]+)`)

func TestC16Gate(t *testing.T) {
	bin, err := buildGateBinary()
	if err != nil {
		t.Fatalf("harness: %v", err)
	}
	defer os.RemoveAll(filepath.Dir(bin))
	col := newCollector(t, "C16", "start-up gate: the real cmd/main.go binary is started with generated node-group files (1-3 groups, each valid or with one conjunct broken, as JSON or YAML, with and without --drymode); oracle: a group logged [PASS] satisfies every invariant, and the process gets past the gate only if every group does; non-trivial = an unsafe group that is not the first one, or several unsafe groups; distinct by (position and class of unsafe groups, format)")
	grids := validationGrids()
	dir := t.TempDir()
	seq := 0
	rapid.Check(t, func(rt *rapid.T) {
		col.Case()
		ng := rapid.IntRange(1, 3).Draw(rt, "groups")
		var groups []controller.NodeGroupOptions
		var unsafe []string
		for g := 0; g < ng; g++ {
			o := validBaseline()
			o.Name = fmt.Sprintf("g%d", g)
			if rapid.IntRange(0, 2).Draw(rt, "broken") > 0 {
				gr := grids[rapid.IntRange(0, len(grids)-1).Draw(rt, "grid")]
				vals := make([]any, len(gr.values))
				for i, d := range gr.values {
					vals[i] = d[rapid.IntRange(0, len(d)-1).Draw(rt, "value")]
				}
				gr.apply(&o, vals)
				if gr.name == "names" && o.Name != "" {
					o.Name = fmt.Sprintf("g%d", g)
				}
			}
			if g > 0 && o.Name != "" && rapid.IntRange(0, 3).Draw(rt, "sameName") == 0 {
				o.Name = groups[0].Name // a copy-pasted block whose name was not changed: still a group that must be safe
			}
			groups = append(groups, o)
			cls := ""
			if r := unsafeReasons(o); len(r) > 0 {
				cls = strings.Fields(r[0])[0]
			}
			unsafe = append(unsafe, cls)
		}
		seq++
		file := filepath.Join(dir, fmt.Sprintf("groups-%d.conf", seq))
		doc, _ := json.MarshalIndent(map[string]any{"node_groups": groups}, "", "  ")
		format := rapid.SampledFrom([]string{"json", "yaml"}).Draw(rt, "format")
		if format == "yaml" {
			var src []groupSrc
			if err := json.Unmarshal(mustJSON(groups), &src); err != nil {
				rt.Fatalf("harness: %v", err)
			}
			doc = []byte(renderYAML(src, 0, 0))
		}
		if err := os.WriteFile(file, doc, 0o644); err != nil {
			rt.Fatalf("harness: %v", err)
		}
		defer os.Remove(file)
		args := []string{"--nodegroups=" + file}
		if rapid.Bool().Draw(rt, "drymode") {
			args = append(args, "--drymode")
		}
		ctx, cancel := context.WithTimeout(context.Background(), 60*time.Second)
		defer cancel()
		cmd := exec.CommandContext(ctx, bin, args...)
		cmd.Env = []string{"PATH=/usr/bin:/bin", "HOME=" + dir}
		out, _ := cmd.CombinedOutput()
		if ctx.Err() != nil {
			rt.Fatalf("harness: the binary did not finish within 60 s (inconclusive)")
		}
		col.Eval(1)
		text := string(out)
		passed := map[string]int{}
		for _, m := range gateLine.FindAllStringSubmatch(text, -1) {
			if m[1] == "PASS" {
				passed[m[3]]++
			}
		}
		safeNamed := map[string]int{}
		for g, o := range groups {
			if unsafe[g] == "" {
				safeNamed[o.Name]++
			}
		}
		beyond := strings.Contains(text, "cluster config")
		desc := func() string {
			return fmt.Sprintf("args %v\nfile:\n%s\nunsafe classes per group: %q\noutput:\n%s", args, doc, unsafe, text)
		}
		for g, o := range groups {
			if passed[o.Name] > safeNamed[o.Name] && unsafe[g] != "" { // more [PASS] verdicts under this name than safe groups carrying it
				fail(rt, dumpPath(), "C16:gate-passed-unsafe:"+unsafe[g], "%s", desc())
			}
		}
		nUnsafe, firstUnsafe := 0, -1
		for g, c := range unsafe {
			if c != "" {
				nUnsafe++
				if firstUnsafe < 0 {
					firstUnsafe = g
				}
			}
		}
		if beyond && nUnsafe > 0 {
			fail(rt, dumpPath(), "C16:gate-not-enforced", "%s", desc())
		}
		if nUnsafe == 0 && !beyond {
			// not demanded by the property (it admits *only* safe configurations), but a gate that
			// stops a documented-valid file means the harness misreads the output
			if !strings.Contains(text, "[FAIL]") && !strings.Contains(text, "decode") {
				rt.Fatalf("harness: neither gate verdict nor client set-up seen:\n%s", desc())
			}
		}
		if firstUnsafe > 0 || nUnsafe > 1 {
			col.Nontrivial(fmt.Sprintf("gate|%v|%s", unsafe, format))
			col.Sample(map[string]any{"unsafe": unsafe, "format": format, "passed": passed, "beyond_gate": beyond})
		}
	})
}

func mustJSON(v any) []byte {
	b, err := json.Marshal(v)
	if err != nil {
		panic(err)
	}
	return b
}
