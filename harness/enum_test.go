//go:build verif

package verifharness

import (
	"fmt"
	"strings"
	"testing"
	"time"

	"pgregory.net/rapid"

	"verifharness/sim"
	"verifharness/world"
)

// faultable counts the calls of a scan that consult the fault plan.
func faultable(rec *world.ScanRecord) int {
	n := 0
	for _, e := range rec.Entries {
		if !strings.HasPrefix(e.Kind, "marker.") {
			n++
		}
	}
	return n
}

// TestC20Enum: fault enumeration. A generated (fault-free) history ends in a scan with C
// journalled calls; the same history is replayed on fresh worlds with a failure injected at
// call index i of that last scan, for sampled (quick) or all (thorough) i, and for pairs of
// indices. Each faulted scan must not panic or hang and may return only documented errors;
// the following fault-free scan must behave as the band oracle demands.
func TestC20Enum(t *testing.T) {
	p := &world.Profile{Name: "chaos-enum", OddConfig: true, MinGroups: 1, MaxGroups: 2, Dry: 1, Fleet: 1, Auto: 1, Default: 1, Starve: 1, MaxAge: 1, MaxInit: 6, SmallGraces: true, Steps: 20, Stale: true,
		Weights: with(baseWeights(), "oddNode", 3, "oddPod", 3, "taintExt", 6, "detach", 1, "fleetPlan", 2, "advance", 8, "drainAndForce", 2, "targetUtil", 10)}
	col := newCollector(t, "C20", "fault enumeration: a generated fault-free history ends in a scan with C calls; the history is replayed on fresh worlds with a failure at call index i of that scan for sampled (quick) or every (thorough) i < C and for pairs (i, j), then one more fault-free scan follows; non-trivial = an injected failure that was actually hit; distinct by (kind of the failed call, position class, outcome)")
	thorough := isThorough()
	rapid.Check(t, func(rt *rapid.T) {
		var pw *world.World
		var last *world.ScanRecord
		rapid.SyncTest(rt, func(rt *rapid.T) {
			cfg := world.DrawConfig(rt, p)
			pw = world.New(cfg)
			pw.Init(rt)
			col.Case()
			rt.Repeat(map[string]func(*rapid.T){"step": func(rt *rapid.T) {
				a, _ := pw.DrawAction(rt, p)
				pw.Apply(a)
				pw.DrainRecs()
			}})
			last, _ = pw.Apply(world.Action{Op: "scan", Flag: true})
		})
		if last == nil || last.View == nil || last.Panic != nil {
			if last != nil && last.Panic != nil {
				for _, v := range pw.M20(last) {
					if !isKnown(v.Sig) {
						dumpFailure("C20", pw, last, v)
						rt.Fatalf("VIOLATION %s", v.Sig)
					}
				}
			}
			return
		}
		C := faultable(last)
		if C == 0 {
			return
		}
		var plans [][]int
		if thorough {
			for i := 0; i < C && i < 120; i++ {
				plans = append(plans, []int{i})
			}
			for k := 0; k < 12; k++ {
				i := rapid.IntRange(0, C-1).Draw(rt, "pairI")
				plans = append(plans, []int{i, rapid.IntRange(0, C-1).Draw(rt, "pairJ")})
			}
		} else {
			for k := 0; k < 6; k++ {
				plans = append(plans, []int{rapid.IntRange(0, C-1).Draw(rt, "index")})
			}
			i := rapid.IntRange(0, C-1).Draw(rt, "pairI")
			plans = append(plans, []int{i, rapid.IntRange(0, C-1).Draw(rt, "pairJ")})
		}
		failBuild := rapid.SampledFrom([]int{0, 0, 0, 1, 2}).Draw(rt, "failBuild")
		// what a failing cloud call answers: an error (with a code), or an answer of unexpected shape
		code := rapid.SampledFrom([]string{"", "", "Throttling", "ValidationError", "InvalidInstanceID.NotFound", "shape:no-reservation", "shape:empty-reservation"}).Draw(rt, "code")
		log := pw.Log[:len(pw.Log)-1]
		for _, plan := range plans {
			rapid.SyncTest(rt, func(rt *rapid.T) {
				tw := world.New(pw.Cfg)
				for _, a := range log {
					tw.Apply(a)
				}
				var fs []sim.Fault
				for _, i := range plan {
					fs = append(fs, sim.Fault{Kind: "", Nth: i, Code: code})
				}
				tw.Apply(world.Action{Op: "fault", Faults: fs, N: failBuild})
				rec, _ := tw.Apply(world.Action{Op: "scan", Flag: true})
				col.Eval(1)
				if rec.View == nil {
					return
				}
				judgeEnum(rt, col, tw, rec, fmt.Sprintf("fault at call index %v of %d", plan, C))
				if rec.FaultHits > 0 {
					kinds := ""
					for _, e := range rec.Entries {
						if e.Injected {
							kinds += e.Kind + ","
						}
					}
					pos := "mid"
					if plan[0] == 0 {
						pos = "first"
					} else if plan[0] == C-1 {
						pos = "last"
					}
					col.Nontrivial(fmt.Sprintf("enum|%s|%s|pair=%v|err=%v|exit=%v", kinds, pos, len(plan) > 1, rec.Err != nil, rec.FatalExit))
				}
				// the next scan, fault-free, must proceed normally
				tw.Apply(world.Action{Op: "advance", D: time.Second})
				next, _ := tw.Apply(world.Action{Op: "scan", Flag: true})
				col.Eval(1)
				if next.View == nil {
					v := world.Violation{Prop: "C20", Sig: "C20:controller-does-not-come-back", Msg: fmt.Sprintf("after %v the controller cannot be built: %v", plan, next.BuildErr)}
					dumpFailure("C20", tw, rec, v)
					rt.Fatalf("VIOLATION %s", v.Sig)
				}
				judgeEnum(rt, col, tw, next, fmt.Sprintf("scan after a fault at call index %v", plan))
				for _, v := range tw.CheckAll(next) {
					if (v.Prop == "C06" || v.Prop == "C02") && !isKnown(v.Sig) {
						v2 := world.Violation{Prop: "C20", Sig: "C20:next-scan-abnormal:" + v.Sig, Msg: "after a transient failure the next scan does not behave normally: " + v.Msg}
						dumpFailure("C20", tw, next, v2)
						rt.Logf("%s\n%s\n%s", v2.String(), tw.Dump(), next.Describe(tw))
						rt.Fatalf("VIOLATION %s", v2.Sig)
					}
				}
			})
		}
	})
}

func judgeEnum(rt *rapid.T, col collectorLike, w *world.World, rec *world.ScanRecord, what string) {
	for _, v := range w.M20(rec) {
		if isKnown(v.Sig) {
			col.KnownFinding(v.Sig)
			continue
		}
		dumpFailure("C20", w, rec, v)
		rt.Logf("%s (%s)\n%s\n%s", v.String(), what, w.Dump(), rec.Describe(w))
		rt.Fatalf("VIOLATION %s", v.Sig)
	}
}
