package sim

import (
	"context"
	"fmt"
	"sort"
	"strings"
	"time"

	v1 "k8s.io/api/core/v1"
	apierrors "k8s.io/apimachinery/pkg/api/errors"
	metav1 "k8s.io/apimachinery/pkg/apis/meta/v1"
	"k8s.io/apimachinery/pkg/labels"
	"k8s.io/apimachinery/pkg/runtime/schema"
	"k8s.io/apimachinery/pkg/types"
	"k8s.io/apimachinery/pkg/watch"
	applycorev1 "k8s.io/client-go/applyconfigurations/core/v1"
	"k8s.io/client-go/kubernetes"
	corev1 "k8s.io/client-go/kubernetes/typed/core/v1"
	v1lister "k8s.io/client-go/listers/core/v1"
)

var nodeGR = schema.GroupResource{Resource: "nodes"}

// K8s is the simulated API server state for nodes plus the client escalator writes through.
// Only the calls escalator is known to make are implemented; anything else on the
// embedded nil interfaces panics visibly.
type K8s struct {
	kubernetes.Interface // nil: any unexpected API group access panics
	J                    *Journal
	Nodes                map[string]*v1.Node
	rv                   int
	// OnConflict, if set, is called when an update is refused by an injected conflict: it plays
	// the concurrent writer whose write caused the conflict (it may change the stored node)
	OnConflict func(stored *v1.Node)
	// Latency: every node API request takes this long to reach the server (virtual time inside a
	// synctest bubble); journal entries carry the time the server processed the request
	Latency time.Duration
}

// travel is the request's way to the server. A caller that gave its request a deadline or
// cancelled it gets the context's error, as with a real client, and the server never sees the request.
func (k *K8s) travel(ctx context.Context) error {
	if ctx == nil {
		ctx = context.Background()
	}
	if err := ctx.Err(); err != nil {
		return err
	}
	if k.Latency > 0 {
		select {
		case <-time.After(k.Latency):
		case <-ctx.Done():
			return ctx.Err()
		}
	}
	return nil
}

// callerGaveUp journals a request that never reached the server because the caller's own
// context ended (not a failure of the API).
func (k *K8s) callerGaveUp(kind, node string, err error) {
	k.J.Big.Lock()
	defer k.J.Big.Unlock()
	k.J.Add(Entry{Kind: kind, Node: node, Err: CallerPrefix + err.Error()})
}

// CallerPrefix marks journal entries of requests abandoned by the caller itself.
const CallerPrefix = "caller gave up: "

// NewK8s creates an empty API state.
func NewK8s(j *Journal) *K8s {
	return &K8s{J: j, Nodes: map[string]*v1.Node{}}
}

// PutNode stores a node without journalling (environment action).
func (k *K8s) PutNode(n *v1.Node) {
	k.rv++
	c := n.DeepCopy()
	c.ResourceVersion = fmt.Sprint(k.rv)
	k.Nodes[c.Name] = c
}

// Touch bumps the resourceVersion of a stored node (a status update by the kubelet).
func (k *K8s) Touch(name string) {
	if n := k.Nodes[name]; n != nil {
		k.rv++
		n.ResourceVersion = fmt.Sprint(k.rv)
	}
}

// RemoveNode drops a node without journalling (environment action).
func (k *K8s) RemoveNode(name string) { delete(k.Nodes, name) }

// SortedNames returns node names sorted.
func (k *K8s) SortedNames() []string {
	out := make([]string, 0, len(k.Nodes))
	for n := range k.Nodes {
		out = append(out, n)
	}
	sort.Strings(out)
	return out
}

// CoreV1 implements kubernetes.Interface.
func (k *K8s) CoreV1() corev1.CoreV1Interface { return &coreV1{k: k} }

type coreV1 struct {
	corev1.CoreV1Interface // nil
	k                      *K8s
}

func (c *coreV1) Nodes() corev1.NodeInterface { return &nodeClient{k: c.k} }

type nodeClient struct {
	corev1.NodeExpansion // nil
	k                    *K8s
}

func brief(n *v1.Node) string {
	if n == nil {
		return ""
	}
	var ts []string
	for _, t := range n.Spec.Taints {
		ts = append(ts, fmt.Sprintf("%s=%s:%s", t.Key, t.Value, t.Effect))
	}
	return "taints=[" + strings.Join(ts, ",") + "]"
}

func (c *nodeClient) Get(ctx context.Context, name string, _ metav1.GetOptions) (*v1.Node, error) {
	if err := c.k.travel(ctx); err != nil {
		c.k.callerGaveUp(KGet, name, err)
		return nil, err
	}
	c.k.J.Big.Lock()
	defer c.k.J.Big.Unlock()
	cur := c.k.Nodes[name]
	e := Entry{Kind: KGet, Node: name}
	if cur != nil {
		e.Before = cur.DeepCopy()
	}
	if c.k.J.ShouldFail(KGet, name) {
		e.Err, e.Injected = "injected", true
		c.k.J.Add(e)
		return nil, apierrors.NewInternalError(&InjectedErr{"get " + name})
	}
	if cur == nil {
		e.Err = "notfound"
		c.k.J.Add(e)
		return nil, apierrors.NewNotFound(nodeGR, name)
	}
	c.k.J.Add(e)
	return cur.DeepCopy(), nil
}

func (c *nodeClient) update(ctx context.Context, kind string, node *v1.Node) (*v1.Node, error) {
	if node == nil {
		c.k.J.Add(Entry{Kind: kind, Err: "nil object"})
		return nil, apierrors.NewBadRequest("nil node")
	}
	if err := c.k.travel(ctx); err != nil {
		c.k.callerGaveUp(kind, node.Name, err)
		return nil, err
	}
	c.k.J.Big.Lock()
	defer c.k.J.Big.Unlock()
	cur := c.k.Nodes[node.Name]
	e := Entry{Kind: kind, Node: node.Name, Sent: node.DeepCopy(), SentBrief: brief(node)}
	if cur != nil {
		e.Before = cur.DeepCopy()
	}
	if c.k.J.ShouldFail(KUpdate, node.Name) {
		e.Err, e.Injected = "injected", true
		c.k.J.Add(e)
		if c.k.OnConflict != nil && cur != nil {
			c.k.OnConflict(cur)
			c.k.rv++
			cur.ResourceVersion = fmt.Sprint(c.k.rv)
		}
		return nil, apierrors.NewConflict(nodeGR, node.Name, &InjectedErr{"update " + node.Name})
	}
	if cur == nil {
		e.Err = "notfound"
		c.k.J.Add(e)
		return nil, apierrors.NewNotFound(nodeGR, node.Name)
	}
	c.k.J.Add(e)
	c.k.rv++
	stored := node.DeepCopy()
	stored.ResourceVersion = fmt.Sprint(c.k.rv)
	c.k.Nodes[node.Name] = stored
	return stored.DeepCopy(), nil
}

func (c *nodeClient) Update(ctx context.Context, node *v1.Node, _ metav1.UpdateOptions) (*v1.Node, error) {
	return c.update(ctx, KUpdate, node)
}

func (c *nodeClient) UpdateStatus(ctx context.Context, node *v1.Node, _ metav1.UpdateOptions) (*v1.Node, error) {
	return c.update(ctx, KOther, node)
}

func (c *nodeClient) Delete(ctx context.Context, name string, _ metav1.DeleteOptions) error {
	if err := c.k.travel(ctx); err != nil {
		c.k.callerGaveUp(KDelete, name, err)
		return err
	}
	c.k.J.Big.Lock()
	defer c.k.J.Big.Unlock()
	cur := c.k.Nodes[name]
	e := Entry{Kind: KDelete, Node: name}
	if cur != nil {
		e.Before = cur.DeepCopy()
	}
	if c.k.J.ShouldFail(KDelete, name) {
		e.Err, e.Injected = "injected", true
		c.k.J.Add(e)
		return apierrors.NewInternalError(&InjectedErr{"delete " + name})
	}
	if cur == nil {
		e.Err = "notfound"
		c.k.J.Add(e)
		return apierrors.NewNotFound(nodeGR, name)
	}
	c.k.J.Add(e)
	delete(c.k.Nodes, name)
	return nil
}

func (c *nodeClient) List(_ context.Context, _ metav1.ListOptions) (*v1.NodeList, error) {
	out := &v1.NodeList{}
	for _, n := range c.k.SortedNames() {
		out.Items = append(out.Items, *c.k.Nodes[n].DeepCopy())
	}
	return out, nil
}

func (c *nodeClient) Create(_ context.Context, node *v1.Node, _ metav1.CreateOptions) (*v1.Node, error) {
	c.k.J.Add(Entry{Kind: KOther, Node: node.Name, Sent: node.DeepCopy(), SentBrief: "create"})
	c.k.PutNode(node)
	return c.k.Nodes[node.Name].DeepCopy(), nil
}

func (c *nodeClient) DeleteCollection(context.Context, metav1.DeleteOptions, metav1.ListOptions) error {
	c.k.J.Add(Entry{Kind: KOther, Node: "*", SentBrief: "deletecollection"})
	return fmt.Errorf("sim: DeleteCollection not supported")
}

func (c *nodeClient) Watch(context.Context, metav1.ListOptions) (watch.Interface, error) {
	return nil, fmt.Errorf("sim: Watch not supported")
}

func (c *nodeClient) Patch(_ context.Context, name string, _ types.PatchType, _ []byte, _ metav1.PatchOptions, _ ...string) (*v1.Node, error) {
	c.k.J.Add(Entry{Kind: KOther, Node: name, SentBrief: "patch"})
	return nil, fmt.Errorf("sim: Patch not supported")
}

func (c *nodeClient) Apply(_ context.Context, _ *applycorev1.NodeApplyConfiguration, _ metav1.ApplyOptions) (*v1.Node, error) {
	c.k.J.Add(Entry{Kind: KOther, Node: "?", SentBrief: "apply"})
	return nil, fmt.Errorf("sim: Apply not supported")
}

func (c *nodeClient) ApplyStatus(_ context.Context, _ *applycorev1.NodeApplyConfiguration, _ metav1.ApplyOptions) (*v1.Node, error) {
	c.k.J.Add(Entry{Kind: KOther, Node: "?", SentBrief: "applystatus"})
	return nil, fmt.Errorf("sim: ApplyStatus not supported")
}

// View is the informer-cache stand-in: a snapshot of nodes (taken from the API state by
// Sync) and the pod list, served in a chosen order.
type View struct {
	J     *Journal
	Nodes []*v1.Node
	Pods  []*v1.Pod
}

// NewView creates an empty view.
func NewView(j *Journal) *View { return &View{J: j} }

// Sync copies the API nodes (in the given name order; names not present are skipped,
// names missing from order are appended sorted) and the given pods into the view.
func (v *View) Sync(k *K8s, order []string, pods []*v1.Pod) {
	seen := map[string]bool{}
	v.Nodes = v.Nodes[:0:0]
	for _, name := range order {
		if n, ok := k.Nodes[name]; ok && !seen[name] {
			seen[name] = true
			v.Nodes = append(v.Nodes, n.DeepCopy())
		}
	}
	for _, name := range k.SortedNames() {
		if !seen[name] {
			v.Nodes = append(v.Nodes, k.Nodes[name].DeepCopy())
		}
	}
	v.Pods = v.Pods[:0:0]
	for _, p := range pods {
		// the production informer's field selector drops finished pods
		if p.Status.Phase == v1.PodSucceeded || p.Status.Phase == v1.PodFailed {
			continue
		}
		v.Pods = append(v.Pods, p.DeepCopy())
	}
}

// SyncPods refreshes the pod half of the view only: the node and pod informers are
// independent, the node cache may lag while the pod cache is current.
func (v *View) SyncPods(pods []*v1.Pod) {
	v.Pods = v.Pods[:0:0]
	for _, p := range pods {
		if p.Status.Phase == v1.PodSucceeded || p.Status.Phase == v1.PodFailed {
			continue
		}
		v.Pods = append(v.Pods, p.DeepCopy())
	}
}

// NodeByName finds a node in the view.
func (v *View) NodeByName(name string) *v1.Node {
	for _, n := range v.Nodes {
		if n.Name == name {
			return n
		}
	}
	return nil
}

// Clone deep-copies the view content (not the journal link).
func (v *View) Clone() *View {
	c := &View{J: v.J}
	for _, n := range v.Nodes {
		c.Nodes = append(c.Nodes, n.DeepCopy())
	}
	for _, p := range v.Pods {
		c.Pods = append(c.Pods, p.DeepCopy())
	}
	return c
}

// NodeLister returns the backing node lister.
func (v *View) NodeLister() v1lister.NodeLister { return &nodeLister{v: v} }

// PodLister returns the backing pod lister.
func (v *View) PodLister() v1lister.PodLister { return &podLister{v: v} }

type nodeLister struct{ v *View }

func (l *nodeLister) List(sel labels.Selector) ([]*v1.Node, error) {
	l.v.J.Big.Lock()
	defer l.v.J.Big.Unlock()
	if l.v.J.ShouldFail(KListNodes, "") {
		l.v.J.Add(Entry{Kind: KListNodes, Err: "injected", Injected: true})
		return nil, &InjectedErr{"list nodes"}
	}
	l.v.J.Add(Entry{Kind: KListNodes})
	out := make([]*v1.Node, 0, len(l.v.Nodes))
	for _, n := range l.v.Nodes {
		if sel == nil || sel.Matches(labels.Set(n.Labels)) {
			out = append(out, n)
		}
	}
	return out, nil
}

func (l *nodeLister) Get(name string) (*v1.Node, error) {
	if n := l.v.NodeByName(name); n != nil {
		return n, nil
	}
	return nil, apierrors.NewNotFound(nodeGR, name)
}

type podLister struct{ v *View }

func (l *podLister) List(sel labels.Selector) ([]*v1.Pod, error) {
	l.v.J.Big.Lock()
	defer l.v.J.Big.Unlock()
	if l.v.J.ShouldFail(KListPods, "") {
		l.v.J.Add(Entry{Kind: KListPods, Err: "injected", Injected: true})
		return nil, &InjectedErr{"list pods"}
	}
	l.v.J.Add(Entry{Kind: KListPods})
	out := make([]*v1.Pod, 0, len(l.v.Pods))
	for _, p := range l.v.Pods {
		if sel == nil || sel.Matches(labels.Set(p.Labels)) {
			out = append(out, p)
		}
	}
	return out, nil
}

func (l *podLister) Pods(ns string) v1lister.PodNamespaceLister { return &podNSLister{l: l, ns: ns} }

type podNSLister struct {
	l  *podLister
	ns string
}

func (l *podNSLister) List(sel labels.Selector) ([]*v1.Pod, error) {
	all, err := l.l.List(sel)
	if err != nil {
		return nil, err
	}
	var out []*v1.Pod
	for _, p := range all {
		if p.Namespace == l.ns {
			out = append(out, p)
		}
	}
	return out, nil
}

func (l *podNSLister) Get(name string) (*v1.Pod, error) {
	for _, p := range l.l.v.Pods {
		if p.Namespace == l.ns && p.Name == name {
			return p, nil
		}
	}
	return nil, apierrors.NewNotFound(schema.GroupResource{Resource: "pods"}, name)
}
