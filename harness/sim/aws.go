package sim

import (
	"fmt"
	"math"
	"sort"
	"strings"
	"time"

	awsapi "github.com/aws/aws-sdk-go/aws"
	"github.com/aws/aws-sdk-go/aws/awserr"
	"github.com/aws/aws-sdk-go/service/autoscaling"
	"github.com/aws/aws-sdk-go/service/autoscaling/autoscalingiface"
	"github.com/aws/aws-sdk-go/service/ec2"
	"github.com/aws/aws-sdk-go/service/ec2/ec2iface"
)

// Instance is a simulated EC2 instance.
type Instance struct {
	ID      string
	AZ      string
	Launch  time.Time
	ReadyAt time.Time // running from this instant on
	Never   bool      // never becomes running
	Dead    bool      // terminated
	ASG     string    // "" = not attached to a group
	// Terminating: termination accepted, but the group still lists the instance (lifecycle state
	// Terminating / Terminating:Wait) until the environment lets the group settle
	Terminating bool
	// GoneState: what DescribeInstanceStatus reports for an instance that never becomes running
	// ("" = pending; "stopped", "stopping", "shutting-down", "terminated")
	GoneState string
}

// Running reports whether the instance is in state running at the current virtual time.
func (i *Instance) Running() bool {
	return !i.Dead && !i.Never && !time.Now().Before(i.ReadyAt)
}

// ASG is a simulated auto scaling group.
type ASG struct {
	Name      string
	Min       int64
	Max       int64
	Desired   int64
	Instances []string // ids, in attach order
	VPCZones  string
	Tags      map[string]string
	Status    string // "Delete in progress" while the group is being deleted ("" otherwise)
}

// FleetPlan controls how the next CreateFleet calls answer.
type FleetPlan struct {
	Mode       int           // 0 = everything asked for; 1 = nothing + errors; 2 = partial when the request allows it, else nothing + errors; 3 = fewer instances than asked for plus errors, whatever the request allows (direct checks only)
	PartialNum int           // for mode 2: how many to return (clamped into [min,total-1])
	Split      int           // number of CreateFleetInstance entries (>=1)
	WithErrors bool          // also return Errors alongside instances
	ReadyAfter time.Duration // instances become running this long after creation
	NeverReady int           // this many of the created instances never become running
	PageSize   int           // DescribeInstanceStatusPages page size (>=1)
	StaggerMod int           // >1: instance i becomes running (i % StaggerMod) seconds later than ReadyAfter
	ErrCode    string        // error code returned with WithErrors ("" = InsufficientInstanceCapacity)
	LateTail   int           // the last LateTail instances of the answer become running 2 s later than the others
	GoneState  string        // state reported for the never-ready instances ("" = pending)
	ServeFrom  int           // the request is filled from this override (index modulo their number); target capacity is counted in units of its WeightedCapacity
}

// FleetErrorCodes are error codes EC2 reports in CreateFleet answers (alongside instances when
// another pool filled the request).
var FleetErrorCodes = []string{"InsufficientInstanceCapacity", "InvalidFleetConfiguration", "InvalidParameterValue", "InvalidSubnetID.NotFound",
	"UnauthorizedOperation", "MaxSpotInstanceCountExceeded", "RequestLimitExceeded", "InsufficientFreeAddressesInSubnet", "Unsupported", "InternalError"}

// FleetReq is the part of a CreateFleet request that matters, recorded in the journal.
type FleetReq struct {
	Type            string      `json:"type"`
	Total           int64       `json:"total"`
	DefaultType     string      `json:"defaultType"`
	OnDemandMin     *int64      `json:"onDemandMin,omitempty"`
	SpotMin         *int64      `json:"spotMin,omitempty"`
	OnDemandSingle  *bool       `json:"onDemandSingle,omitempty"`
	SpotSingle      *bool       `json:"spotSingle,omitempty"`
	TemplateID      string      `json:"templateID"`
	TemplateVersion string      `json:"templateVersion"`
	Overrides       [][2]string `json:"overrides"`
	Weights         []float64   `json:"weights,omitempty"` // WeightedCapacity per override (1 when absent)
	Configs         int         `json:"configs"`
	Tagged          bool        `json:"tagged"`
	TermWithExpiry  *bool       `json:"termWithExpiry,omitempty"`
}

// AWS is the simulated cloud: auto scaling groups plus EC2 instances.
type AWS struct {
	// Linger: an instance whose termination was accepted stays listed by its group as Terminating
	// until Settle is called (real groups list such instances for seconds to hours)
	Linger    bool
	J         *Journal
	ASGs      map[string]*ASG
	Instances map[string]*Instance
	Fleet     FleetPlan
	// BumpAfterDescribe: once, right after the next successful DescribeAutoScalingGroups answer that lists
	// the group, somebody else raises its desired capacity by this much (never beyond its maximum)
	BumpAfterDescribe map[string]int64
	nextID            int
	AZs               []string
}

// NewAWS creates an empty cloud.
func NewAWS(j *Journal) *AWS {
	return &AWS{J: j, ASGs: map[string]*ASG{}, Instances: map[string]*Instance{},
		Fleet: FleetPlan{Split: 1, PageSize: 50}, AZs: []string{"us-east-1a", "us-east-1b"}}
}

// AddASG registers a group.
func (a *AWS) AddASG(name string, min, max, desired int64, zones string) *ASG {
	g := &ASG{Name: name, Min: min, Max: max, Desired: desired, VPCZones: zones, Tags: map[string]string{}}
	a.ASGs[name] = g
	return g
}

// NewInstance creates an instance (running at once unless told otherwise); asg may be "".
func (a *AWS) NewInstance(asg string) *Instance {
	a.nextID++
	id := fmt.Sprintf("i-%08x", a.nextID)
	inst := &Instance{ID: id, AZ: a.AZs[a.nextID%len(a.AZs)], Launch: time.Now(), ReadyAt: time.Now(), ASG: asg}
	a.Instances[id] = inst
	if asg != "" {
		a.ASGs[asg].Instances = append(a.ASGs[asg].Instances, id)
	}
	return inst
}

// ProviderID is the node.spec.providerID a cloud controller would set for the instance.
func (i *Instance) ProviderID() string { return fmt.Sprintf("aws:///%s/%s", i.AZ, i.ID) }

// ProviderIDOf is the provider id of a known instance ("" if unknown).
func (a *AWS) ProviderIDOf(id string) string {
	if i := a.Instances[id]; i != nil {
		return i.ProviderID()
	}
	return ""
}

// Detach removes an instance from its group without terminating it (environment action).
func (a *AWS) Detach(id string, decrement bool) {
	inst := a.Instances[id]
	if inst == nil || inst.ASG == "" {
		return
	}
	g := a.ASGs[inst.ASG]
	g.Instances = remove(g.Instances, id)
	if decrement && g.Desired > 0 {
		g.Desired--
	}
	inst.ASG = ""
}

// Kill terminates an instance from the outside (environment action).
func (a *AWS) Kill(id string) {
	inst := a.Instances[id]
	if inst == nil {
		return
	}
	if inst.ASG != "" {
		g := a.ASGs[inst.ASG]
		g.Instances = remove(g.Instances, id)
		inst.ASG = ""
	}
	inst.Dead = true
}

func remove(s []string, x string) []string {
	out := s[:0:0]
	for _, v := range s {
		if v != x {
			out = append(out, v)
		}
	}
	return out
}

// SortedASGNames returns the group names sorted.
func (a *AWS) SortedASGNames() []string {
	out := make([]string, 0, len(a.ASGs))
	for n := range a.ASGs {
		out = append(out, n)
	}
	sort.Strings(out)
	return out
}

func lifecycleOf(inst *Instance) string {
	if inst.Terminating {
		if inst.ID[len(inst.ID)-1]%2 == 0 {
			return "Terminating:Wait"
		}
		return "Terminating"
	}
	return "InService"
}

func verr(msg string) error { return awserr.New("ValidationError", msg, nil) }

func (a *AWS) inject(kind string) error {
	if a.J.ShouldFail(kind, "") {
		code := a.J.LastCode
		if code == "" {
			code = "InternalFailure"
		}
		return awserr.New(code, "injected failure: "+kind, &InjectedErr{kind})
	}
	return nil
}

// Settle lets every group finish the terminations it still lists.
func (a *AWS) Settle() {
	for _, g := range a.ASGs {
		for _, id := range append([]string{}, g.Instances...) {
			if inst := a.Instances[id]; inst != nil && inst.Terminating {
				g.Instances = remove(g.Instances, id)
				inst.ASG = ""
				inst.Terminating = false
			}
		}
	}
}

// Live counts the instances of a group that are not on their way out.
func (a *AWS) Live(g *ASG) int {
	n := 0
	for _, id := range g.Instances {
		if inst := a.Instances[id]; inst != nil && !inst.Terminating {
			n++
		}
	}
	return n
}

// AutoScaling returns the auto scaling service client.
func (a *AWS) AutoScaling() autoscalingiface.AutoScalingAPI { return &asClient{a: a} }

// EC2 returns the EC2 service client.
func (a *AWS) EC2() ec2iface.EC2API { return &ec2Client{a: a} }

type asClient struct {
	autoscalingiface.AutoScalingAPI // nil: unexpected calls panic visibly
	a                               *AWS
}

func (c *asClient) DescribeAutoScalingGroups(in *autoscaling.DescribeAutoScalingGroupsInput) (*autoscaling.DescribeAutoScalingGroupsOutput, error) {
	c.a.J.Big.Lock()
	defer c.a.J.Big.Unlock()
	names := awsapi.StringValueSlice(in.AutoScalingGroupNames)
	e := Entry{Kind: ADescribeASG, ASGs: names}
	if err := c.a.inject(ADescribeASG); err != nil {
		e.Err, e.Injected = "injected", true
		c.a.J.Add(e)
		return nil, err
	}
	c.a.J.Add(e)
	want := map[string]bool{}
	for _, n := range names {
		want[n] = true
	}
	out := &autoscaling.DescribeAutoScalingGroupsOutput{}
	for _, name := range c.a.SortedASGNames() {
		if len(names) > 0 && !want[name] {
			continue
		}
		g := c.a.ASGs[name]
		grp := &autoscaling.Group{
			AutoScalingGroupName: awsapi.String(g.Name),
			MinSize:              awsapi.Int64(g.Min),
			MaxSize:              awsapi.Int64(g.Max),
			DesiredCapacity:      awsapi.Int64(g.Desired),
			VPCZoneIdentifier:    awsapi.String(g.VPCZones),
		}
		if g.Status != "" {
			grp.Status = awsapi.String(g.Status)
		}
		for _, id := range g.Instances {
			inst := c.a.Instances[id]
			grp.Instances = append(grp.Instances, &autoscaling.Instance{
				InstanceId:       awsapi.String(inst.ID),
				AvailabilityZone: awsapi.String(inst.AZ),
				LifecycleState:   awsapi.String(lifecycleOf(inst)),
				HealthStatus:     awsapi.String("Healthy"),
			})
		}
		var keys []string
		for k := range g.Tags {
			keys = append(keys, k)
		}
		sort.Strings(keys)
		for _, k := range keys {
			grp.Tags = append(grp.Tags, &autoscaling.TagDescription{Key: awsapi.String(k), Value: awsapi.String(g.Tags[k]),
				ResourceId: awsapi.String(g.Name), ResourceType: awsapi.String("auto-scaling-group"), PropagateAtLaunch: awsapi.Bool(true)})
		}
		out.AutoScalingGroups = append(out.AutoScalingGroups, grp)
		if d, ok := c.a.BumpAfterDescribe[name]; ok {
			delete(c.a.BumpAfterDescribe, name)
			if g.Desired += d; g.Desired > g.Max {
				g.Desired = g.Max
			}
		}
	}
	return out, nil
}

func (c *asClient) SetDesiredCapacity(in *autoscaling.SetDesiredCapacityInput) (*autoscaling.SetDesiredCapacityOutput, error) {
	c.a.J.Big.Lock()
	defer c.a.J.Big.Unlock()
	name := awsapi.StringValue(in.AutoScalingGroupName)
	e := Entry{Kind: ASetDesired, ASG: name, Value: awsapi.Int64Value(in.DesiredCapacity), Flag: in.HonorCooldown}
	g := c.a.ASGs[name]
	if g != nil {
		e.PreDesired, e.PreMin, e.PreMax = g.Desired, g.Min, g.Max
	}
	fail := func(err error, injected bool) (*autoscaling.SetDesiredCapacityOutput, error) {
		e.Err, e.Injected = err.Error(), injected
		c.a.J.Add(e)
		return nil, err
	}
	if err := c.a.inject(ASetDesired); err != nil {
		return fail(err, true)
	}
	if g == nil {
		return fail(verr("AutoScalingGroup name not found - "+name), false)
	}
	if in.DesiredCapacity == nil {
		return fail(verr("missing DesiredCapacity"), false)
	}
	v := *in.DesiredCapacity
	if v > g.Max {
		return fail(verr(fmt.Sprintf("New SetDesiredCapacity value %d is above max value %d for the AutoScalingGroup.", v, g.Max)), false)
	}
	if v < g.Min {
		return fail(verr(fmt.Sprintf("New SetDesiredCapacity value %d is below min value %d for the AutoScalingGroup.", v, g.Min)), false)
	}
	c.a.J.Add(e)
	g.Desired = v
	return &autoscaling.SetDesiredCapacityOutput{}, nil
}

func (c *asClient) TerminateInstanceInAutoScalingGroup(in *autoscaling.TerminateInstanceInAutoScalingGroupInput) (*autoscaling.TerminateInstanceInAutoScalingGroupOutput, error) {
	c.a.J.Big.Lock()
	defer c.a.J.Big.Unlock()
	id := awsapi.StringValue(in.InstanceId)
	e := Entry{Kind: ATerminateInASG, IDs: []string{id}, Flag: in.ShouldDecrementDesiredCapacity}
	inst := c.a.Instances[id]
	var g *ASG
	if inst != nil && inst.ASG != "" {
		g = c.a.ASGs[inst.ASG]
		e.ASG = g.Name
		e.PreDesired, e.PreMin, e.PreMax = g.Desired, g.Min, g.Max
	}
	fail := func(err error, injected bool) (*autoscaling.TerminateInstanceInAutoScalingGroupOutput, error) {
		e.Err, e.Injected = err.Error(), injected
		c.a.J.Add(e)
		return nil, err
	}
	if err := c.a.inject(ATerminateInASG); err != nil {
		return fail(err, true)
	}
	if inst != nil && inst.Terminating {
		return fail(verr("Instance "+id+" is not in InService or Standby state (Terminating)"), false)
	}
	if in.InstanceId == nil || g == nil || inst.Dead {
		return fail(verr("Instance Id not found - No managed instance found for instance ID: "+id), false)
	}
	dec := awsapi.BoolValue(in.ShouldDecrementDesiredCapacity)
	if dec && g.Desired-1 < g.Min {
		return fail(verr("Currently, desiredSize equals minSize. Terminating instance without replacement will violate group's min size constraint."), false)
	}
	c.a.J.Add(e)
	if c.a.Linger {
		inst.Terminating = true
	} else {
		g.Instances = remove(g.Instances, id)
		inst.ASG = ""
	}
	inst.Dead = true
	if dec {
		g.Desired--
	}
	return &autoscaling.TerminateInstanceInAutoScalingGroupOutput{Activity: &autoscaling.Activity{
		ActivityId:           awsapi.String("act-" + id),
		AutoScalingGroupName: awsapi.String(g.Name),
		Description:          awsapi.String("Terminating EC2 instance: " + id),
		Cause:                awsapi.String("instance was taken out of service in response to a user request"),
		StatusCode:           awsapi.String("InProgress"),
		StartTime:            awsapi.Time(time.Now()),
	}}, nil
}

func (c *asClient) AttachInstances(in *autoscaling.AttachInstancesInput) (*autoscaling.AttachInstancesOutput, error) {
	c.a.J.Big.Lock()
	defer c.a.J.Big.Unlock()
	name := awsapi.StringValue(in.AutoScalingGroupName)
	ids := awsapi.StringValueSlice(in.InstanceIds)
	e := Entry{Kind: AAttach, ASG: name, IDs: ids}
	g := c.a.ASGs[name]
	if g != nil {
		e.PreDesired, e.PreMin, e.PreMax = g.Desired, g.Min, g.Max
	}
	fail := func(err error, injected bool) (*autoscaling.AttachInstancesOutput, error) {
		e.Err, e.Injected = err.Error(), injected
		c.a.J.Add(e)
		return nil, err
	}
	if err := c.a.inject(AAttach); err != nil {
		return fail(err, true)
	}
	if g == nil {
		return fail(verr("AutoScalingGroup name not found - "+name), false)
	}
	if len(ids) > 20 {
		return fail(verr("1 validation error detected: Value at 'instanceIds' failed to satisfy constraint: Member must have length less than or equal to 20"), false)
	}
	if len(ids) == 0 {
		return fail(verr("InstanceIds must not be empty"), false)
	}
	seen := map[string]bool{}
	for _, id := range ids {
		inst := c.a.Instances[id]
		if inst == nil || inst.Dead {
			return fail(verr("Invalid Instance ID(s): ["+id+"] specified"), false)
		}
		if inst.ASG != "" {
			return fail(verr("Instance "+id+" is already part of AutoScalingGroup "+inst.ASG), false)
		}
		if !inst.Running() {
			return fail(verr("Instance "+id+" is not in correct state. Instance(s) must be in 'running' state."), false)
		}
		if seen[id] {
			return fail(verr("duplicate instance id "+id), false)
		}
		seen[id] = true
	}
	if g.Desired+int64(len(ids)) > g.Max {
		return fail(verr(fmt.Sprintf("Attaching %d instances would exceed the max size %d of the group", len(ids), g.Max)), false)
	}
	c.a.J.Add(e)
	for _, id := range ids {
		c.a.Instances[id].ASG = name
		g.Instances = append(g.Instances, id)
	}
	g.Desired += int64(len(ids))
	return &autoscaling.AttachInstancesOutput{}, nil
}

func (c *asClient) CreateOrUpdateTags(in *autoscaling.CreateOrUpdateTagsInput) (*autoscaling.CreateOrUpdateTagsOutput, error) {
	c.a.J.Big.Lock()
	defer c.a.J.Big.Unlock()
	e := Entry{Kind: ATags}
	if len(in.Tags) > 0 {
		e.ASG = awsapi.StringValue(in.Tags[0].ResourceId)
	}
	if err := c.a.inject(ATags); err != nil {
		e.Err, e.Injected = "injected", true
		c.a.J.Add(e)
		return nil, err
	}
	c.a.J.Add(e)
	for _, t := range in.Tags {
		if g := c.a.ASGs[awsapi.StringValue(t.ResourceId)]; g != nil {
			g.Tags[awsapi.StringValue(t.Key)] = awsapi.StringValue(t.Value)
		}
	}
	return &autoscaling.CreateOrUpdateTagsOutput{}, nil
}

type ec2Client struct {
	ec2iface.EC2API // nil
	a               *AWS
}

func fleetReq(in *ec2.CreateFleetInput) *FleetReq {
	r := &FleetReq{Type: awsapi.StringValue(in.Type), TermWithExpiry: in.TerminateInstancesWithExpiration}
	if t := in.TargetCapacitySpecification; t != nil {
		r.Total = awsapi.Int64Value(t.TotalTargetCapacity)
		r.DefaultType = awsapi.StringValue(t.DefaultTargetCapacityType)
	}
	if o := in.OnDemandOptions; o != nil {
		r.OnDemandMin = o.MinTargetCapacity
		r.OnDemandSingle = o.SingleInstanceType
		if r.OnDemandMin == nil {
			r.OnDemandMin = awsapi.Int64(-1)
		}
	}
	if o := in.SpotOptions; o != nil {
		r.SpotMin = o.MinTargetCapacity
		r.SpotSingle = o.SingleInstanceType
		if r.SpotMin == nil {
			r.SpotMin = awsapi.Int64(-1)
		}
	}
	r.Configs = len(in.LaunchTemplateConfigs)
	for _, cfg := range in.LaunchTemplateConfigs {
		if s := cfg.LaunchTemplateSpecification; s != nil {
			r.TemplateID = awsapi.StringValue(s.LaunchTemplateId)
			r.TemplateVersion = awsapi.StringValue(s.Version)
		}
		for _, o := range cfg.Overrides {
			r.Overrides = append(r.Overrides, [2]string{awsapi.StringValue(o.SubnetId), awsapi.StringValue(o.InstanceType)})
			wgt := 1.0
			if o.WeightedCapacity != nil && *o.WeightedCapacity > 0 {
				wgt = *o.WeightedCapacity
			}
			r.Weights = append(r.Weights, wgt)
		}
	}
	for _, ts := range in.TagSpecifications {
		if awsapi.StringValue(ts.ResourceType) == ec2.ResourceTypeFleet {
			for _, t := range ts.Tags {
				if awsapi.StringValue(t.Key) == "k8s.io/atlassian-escalator/enabled" && awsapi.StringValue(t.Value) == "true" {
					r.Tagged = true
				}
			}
		}
	}
	return r
}

// effective minimum of an instant fleet request: the MinTargetCapacity of the option block
// that matches the default capacity type; 0 when absent (partial fulfilment allowed).
func (r *FleetReq) effMin() int64 {
	var m *int64
	if r.DefaultType == "spot" {
		m = r.SpotMin
	} else {
		m = r.OnDemandMin
	}
	if m == nil || *m < 0 {
		return 0
	}
	return *m
}

func (c *ec2Client) CreateFleet(in *ec2.CreateFleetInput) (*ec2.CreateFleetOutput, error) {
	c.a.J.Big.Lock()
	defer c.a.J.Big.Unlock()
	req := fleetReq(in)
	e := Entry{Kind: ACreateFleet, Value: req.Total, FleetDetail: req}
	if err := c.a.inject(ACreateFleet); err != nil {
		e.Err, e.Injected = "injected", true
		c.a.J.Add(e)
		return nil, err
	}
	if req.Total <= 0 || req.Type != "instant" {
		e.Err = "InvalidParameter"
		c.a.J.Add(e)
		return nil, awserr.New("InvalidParameterValue", "bad fleet request", nil)
	}
	plan := c.a.Fleet
	count := req.Total
	if len(req.Weights) > 0 {
		// target capacity is counted in units; one instance of the serving override is worth its weight
		if wgt := req.Weights[((plan.ServeFrom%len(req.Weights))+len(req.Weights))%len(req.Weights)]; wgt != 1 {
			count = int64(math.Ceil(float64(req.Total) / wgt))
		}
	}
	min := req.effMin()
	switch plan.Mode {
	case 3:
		count = int64(plan.PartialNum)
		if count > req.Total-1 {
			count = req.Total - 1
		}
		if count < 1 {
			count = map[bool]int64{true: 1, false: 0}[req.Total > 1]
		}
	case 1:
		count = 0
	case 2:
		if min >= req.Total {
			count = 0 // all-or-nothing request that cannot be met in full
		} else {
			count = int64(plan.PartialNum)
			if count < min {
				count = min
			}
			if count < 1 {
				count = 1
			}
			if count > req.Total-1 {
				count = req.Total - 1
			}
			if count < 1 {
				count = 0
			}
		}
	}
	out := &ec2.CreateFleetOutput{FleetId: awsapi.String("fleet-sim")}
	if count == 0 || plan.WithErrors || plan.Mode == 3 {
		out.Errors = []*ec2.CreateFleetError{{
			ErrorCode:    awsapi.String(map[bool]string{true: "InsufficientInstanceCapacity", false: plan.ErrCode}[plan.ErrCode == ""]),
			ErrorMessage: awsapi.String("There is no capacity available that matches your request."),
			Lifecycle:    awsapi.String(req.DefaultType),
		}}
	}
	var ids []string
	for i := int64(0); i < count; i++ {
		inst := c.a.NewInstance("")
		inst.ReadyAt = time.Now().Add(plan.ReadyAfter)
		if plan.StaggerMod > 1 {
			// later ids first, so that a running instance can be listed before a pending one
			inst.ReadyAt = inst.ReadyAt.Add(time.Duration((count-1-i)%int64(plan.StaggerMod)) * time.Second)
		}
		if plan.LateTail > 0 && i >= count-int64(plan.LateTail) {
			inst.ReadyAt = inst.ReadyAt.Add(2 * time.Second)
		}
		if int(i) < plan.NeverReady {
			inst.Never = true
			inst.GoneState = plan.GoneState
		}
		ids = append(ids, inst.ID)
	}
	split := plan.Split
	if split < 1 {
		split = 1
	}
	if int64(split) > count {
		split = int(count)
	}
	for s := 0; s < split; s++ {
		lo, hi := len(ids)*s/split, len(ids)*(s+1)/split
		out.Instances = append(out.Instances, &ec2.CreateFleetInstance{
			InstanceIds: awsapi.StringSlice(ids[lo:hi]),
			Lifecycle:   awsapi.String(req.DefaultType),
		})
	}
	e.Returned = ids
	c.a.J.Add(e)
	return out, nil
}

func (c *ec2Client) DescribeInstanceStatusPages(in *ec2.DescribeInstanceStatusInput, fn func(*ec2.DescribeInstanceStatusOutput, bool) bool) error {
	c.a.J.Big.Lock()
	defer c.a.J.Big.Unlock()
	ids := awsapi.StringValueSlice(in.InstanceIds)
	e := Entry{Kind: AStatusPages, IDs: ids}
	if err := c.a.inject(AStatusPages); err != nil {
		e.Err, e.Injected = "injected", true
		c.a.J.Add(e)
		return err
	}
	c.a.J.Add(e)
	var statuses []*ec2.InstanceStatus
	for _, id := range ids {
		inst := c.a.Instances[id]
		if inst == nil {
			return awserr.New("InvalidInstanceID.NotFound", "The instance ID '"+id+"' does not exist", nil)
		}
		state, code := "pending", int64(0)
		switch {
		case inst.Dead:
			state, code = "terminated", 48
		case inst.Running():
			state, code = "running", 16
		case inst.Never && inst.GoneState != "":
			state, code = inst.GoneState, map[string]int64{"shutting-down": 32, "terminated": 48, "stopping": 64, "stopped": 80}[inst.GoneState]
		}
		if state != "running" && !awsapi.BoolValue(in.IncludeAllInstances) {
			continue
		}
		statuses = append(statuses, &ec2.InstanceStatus{
			InstanceId:       awsapi.String(id),
			AvailabilityZone: awsapi.String(inst.AZ),
			InstanceState:    &ec2.InstanceState{Name: awsapi.String(state), Code: awsapi.Int64(code)},
		})
	}
	ps := c.a.Fleet.PageSize
	if ps < 1 {
		ps = 50
	}
	if len(statuses) == 0 {
		fn(&ec2.DescribeInstanceStatusOutput{}, true)
		return nil
	}
	for lo := 0; lo < len(statuses); lo += ps {
		hi := lo + ps
		if hi > len(statuses) {
			hi = len(statuses)
		}
		last := hi == len(statuses)
		if !fn(&ec2.DescribeInstanceStatusOutput{InstanceStatuses: statuses[lo:hi]}, last) {
			break
		}
	}
	return nil
}

func (c *ec2Client) DescribeInstances(in *ec2.DescribeInstancesInput) (*ec2.DescribeInstancesOutput, error) {
	c.a.J.Big.Lock()
	defer c.a.J.Big.Unlock()
	ids := awsapi.StringValueSlice(in.InstanceIds)
	e := Entry{Kind: ADescribeInst, IDs: ids}
	if err := c.a.inject(ADescribeInst); err != nil {
		e.Err, e.Injected = "injected", true
		c.a.J.Add(e)
		// an injected fault may also be an answer of unexpected shape instead of an error
		switch c.a.J.LastCode {
		case "shape:no-reservation":
			return &ec2.DescribeInstancesOutput{}, nil
		case "shape:empty-reservation":
			return &ec2.DescribeInstancesOutput{Reservations: []*ec2.Reservation{{ReservationId: awsapi.String("r-empty")}}}, nil
		}
		return nil, err
	}
	out := &ec2.DescribeInstancesOutput{}
	for _, id := range ids {
		inst := c.a.Instances[id]
		if inst == nil {
			code := "InvalidInstanceID.NotFound"
			if !strings.HasPrefix(id, "i-") {
				code = "InvalidInstanceID.Malformed"
			}
			e.Err = code
			c.a.J.Add(e)
			return nil, awserr.New(code, "The instance ID '"+id+"' does not exist", nil)
		}
		state := "running"
		if inst.Dead {
			state = "terminated"
		} else if !inst.Running() {
			state = "pending"
		}
		out.Reservations = append(out.Reservations, &ec2.Reservation{
			ReservationId: awsapi.String("r-" + id),
			Instances: []*ec2.Instance{{
				InstanceId: awsapi.String(id),
				LaunchTime: awsapi.Time(inst.Launch),
				State:      &ec2.InstanceState{Name: awsapi.String(state)},
				Placement:  &ec2.Placement{AvailabilityZone: awsapi.String(inst.AZ)},
			}},
		})
	}
	c.a.J.Add(e)
	return out, nil
}

func (c *ec2Client) TerminateInstances(in *ec2.TerminateInstancesInput) (*ec2.TerminateInstancesOutput, error) {
	c.a.J.Big.Lock()
	defer c.a.J.Big.Unlock()
	ids := awsapi.StringValueSlice(in.InstanceIds)
	e := Entry{Kind: ATerminateInst, IDs: ids}
	if err := c.a.inject(ATerminateInst); err != nil {
		e.Err, e.Injected = "injected", true
		c.a.J.Add(e)
		return nil, err
	}
	if len(ids) > 1000 {
		e.Err = "too many ids"
		c.a.J.Add(e)
		return nil, awserr.New("InvalidParameterValue", "too many instance ids (max 1000)", nil)
	}
	for _, id := range ids {
		if c.a.Instances[id] == nil {
			e.Err = "InvalidInstanceID.NotFound"
			c.a.J.Add(e)
			return nil, awserr.New("InvalidInstanceID.NotFound", "The instance ID '"+id+"' does not exist", nil)
		}
	}
	c.a.J.Add(e)
	out := &ec2.TerminateInstancesOutput{}
	for _, id := range ids {
		c.a.Kill(id)
		out.TerminatingInstances = append(out.TerminatingInstances, &ec2.InstanceStateChange{InstanceId: awsapi.String(id),
			CurrentState: &ec2.InstanceState{Name: awsapi.String("shutting-down")}})
	}
	return out, nil
}
