// Package sim holds the simulated Kubernetes API, the informer-cache view and the
// simulated AWS (auto scaling + EC2) that escalator's real code is run against.
// Every call is journalled with its arguments and the (virtual) time of the call.
package sim

import (
	"fmt"
	"sync"
	"time"

	v1 "k8s.io/api/core/v1"
)

// Kinds of journal entries.
const (
	KGet       = "k8s.get"
	KUpdate    = "k8s.update"
	KDelete    = "k8s.delete"
	KOther     = "k8s.other" // any other verb on nodes (create, patch, ...): always a write
	KListNodes = "k8s.list.nodes"
	KListPods  = "k8s.list.pods"

	ADescribeASG    = "aws.DescribeAutoScalingGroups"
	ASetDesired     = "aws.SetDesiredCapacity"
	ATerminateInASG = "aws.TerminateInstanceInAutoScalingGroup"
	AAttach         = "aws.AttachInstances"
	ATags           = "aws.CreateOrUpdateTags"
	ACreateFleet    = "aws.CreateFleet"
	AStatusPages    = "aws.DescribeInstanceStatusPages"
	ADescribeInst   = "aws.DescribeInstances"
	ATerminateInst  = "aws.TerminateInstances"
	AOther          = "aws.other"

	MGetNodeGroup = "marker.GetNodeGroup"
	MBuild        = "marker.Build"
	MRefresh      = "marker.Refresh"
	// calls on the cloudprovider.NodeGroup interface, journalled after they return
	MDeleteNodes  = "marker.DeleteNodes"  // Names = node names, Err/ErrType = result
	MIncreaseSize = "marker.IncreaseSize" // Value = delta, Err = result
)

// Entry is one journalled call.
type Entry struct {
	Seq  int       `json:"seq"`
	T    time.Time `json:"t"`
	Kind string    `json:"kind"`

	// k8s
	Node      string   `json:"node,omitempty"`
	Sent      *v1.Node `json:"-"` // object sent in an update
	Before    *v1.Node `json:"-"` // API object before the call (nil if absent)
	SentBrief string   `json:"sent,omitempty"`

	// aws
	ASG         string    `json:"asg,omitempty"`
	ASGs        []string  `json:"asgs,omitempty"`       // DescribeAutoScalingGroups names
	IDs         []string  `json:"ids,omitempty"`        // instance ids in the call
	Value       int64     `json:"value,omitempty"`      // SetDesiredCapacity value / fleet total
	Flag        *bool     `json:"flag,omitempty"`       // ShouldDecrement / HonorCooldown
	PreDesired  int64     `json:"preDesired,omitempty"` // real desired capacity before the call
	PreMin      int64     `json:"preMin,omitempty"`
	PreMax      int64     `json:"preMax,omitempty"`
	Returned    []string  `json:"returned,omitempty"` // instance ids returned (CreateFleet)
	FleetDetail *FleetReq `json:"fleet,omitempty"`

	Names   []string `json:"names,omitempty"`   // marker.DeleteNodes: node names
	ErrType string   `json:"errType,omitempty"` // marker.*: Go type of the returned error

	Err      string `json:"err,omitempty"`
	Injected bool   `json:"injected,omitempty"`
}

// OK reports whether the call succeeded.
func (e *Entry) OK() bool { return e.Err == "" }

func (e Entry) String() string {
	s := fmt.Sprintf("#%d %s %s", e.Seq, e.T.UTC().Format("15:04:05.000000000"), e.Kind)
	if e.Node != "" {
		s += " node=" + e.Node
	}
	if e.SentBrief != "" {
		s += " sent={" + e.SentBrief + "}"
	}
	if e.ASG != "" {
		s += " asg=" + e.ASG
	}
	if len(e.ASGs) > 0 {
		s += fmt.Sprintf(" asgs=%v", e.ASGs)
	}
	if len(e.IDs) > 0 {
		if len(e.IDs) > 6 {
			s += fmt.Sprintf(" ids(%d)=%v...", len(e.IDs), e.IDs[:6])
		} else {
			s += fmt.Sprintf(" ids=%v", e.IDs)
		}
	}
	switch e.Kind {
	case ASetDesired, ACreateFleet:
		s += fmt.Sprintf(" value=%d", e.Value)
	}
	switch e.Kind {
	case ASetDesired, ATerminateInASG, AAttach:
		s += fmt.Sprintf(" pre(min=%d desired=%d max=%d)", e.PreMin, e.PreDesired, e.PreMax)
	}
	if e.Flag != nil {
		s += fmt.Sprintf(" flag=%v", *e.Flag)
	}
	if len(e.Names) > 0 {
		s += fmt.Sprintf(" names=%v", e.Names)
	}
	if e.Kind == MIncreaseSize {
		s += fmt.Sprintf(" delta=%d", e.Value)
	}
	if len(e.Returned) > 0 {
		s += fmt.Sprintf(" returned=%d", len(e.Returned))
	}
	if e.Err != "" {
		s += " ERR=" + e.Err
		if e.Injected {
			s += " (injected)"
		}
	}
	return s
}

// IsK8sWrite reports whether the entry is a mutating Kubernetes call.
func (e *Entry) IsK8sWrite() bool {
	return e.Kind == KUpdate || e.Kind == KDelete || e.Kind == KOther
}

// IsAWSWrite reports whether the entry is a mutating AWS call (tagging excluded).
func (e *Entry) IsAWSWrite() bool {
	switch e.Kind {
	case ASetDesired, ATerminateInASG, AAttach, ACreateFleet, ATerminateInst, AOther:
		return true
	}
	return false
}

// Fault describes one injected failure.
//
//	Kind  "" matches any faultable kind
//	Nth   fail the Nth (0-based) matching call since the plan was armed; -1 = every one
//	Node  restrict to k8s calls naming this node ("" = any)
type Fault struct {
	Kind string `json:"kind"`
	Nth  int    `json:"nth"`
	Node string `json:"node,omitempty"`
	// Count: this many consecutive matching calls fail from the Nth on (0 or 1 = one call)
	Count int `json:"count,omitempty"`
	// Code: AWS error code of the injected failure ("" = InternalFailure), e.g. Throttling
	Code string `json:"code,omitempty"`
	seen int
	Hits int `json:"-"`
}

// Journal collects entries and owns the fault plan.
type Journal struct {
	// Big serialises the simulated API servers: escalator may call them from several goroutines
	Big     sync.Mutex
	Entries []Entry
	Faults  []*Fault
	// LastCode is the error code asked for by the fault that fired last
	LastCode string
	seq      int
}

// NewJournal returns an empty journal.
func NewJournal() *Journal { return &Journal{} }

// Add appends an entry, stamping sequence number and virtual time.
func (j *Journal) Add(e Entry) *Entry {
	e.Seq = j.seq
	j.seq++
	e.T = time.Now()
	j.Entries = append(j.Entries, e)
	return &j.Entries[len(j.Entries)-1]
}

// AddLocked is Add for callers outside the simulated API servers (it takes the big lock itself).
func (j *Journal) AddLocked(e Entry) *Entry {
	j.Big.Lock()
	defer j.Big.Unlock()
	return j.Add(e)
}

// Mark returns the current length, for slicing out a scan's entries later.
func (j *Journal) Mark() int { return len(j.Entries) }

// Since returns a copy of the entries added since mark.
func (j *Journal) Since(mark int) []Entry {
	out := make([]Entry, len(j.Entries)-mark)
	copy(out, j.Entries[mark:])
	return out
}

// Arm replaces the fault plan.
func (j *Journal) Arm(f []Fault) {
	j.Faults = nil
	for i := range f {
		c := f[i]
		c.seen, c.Hits = 0, 0
		j.Faults = append(j.Faults, &c)
	}
}

// Disarm clears the fault plan and reports how many injected failures were hit.
func (j *Journal) Disarm() int {
	h := 0
	for _, f := range j.Faults {
		h += f.Hits
	}
	j.Faults = nil
	return h
}

// ShouldFail consults the fault plan for a call of the given kind.
func (j *Journal) ShouldFail(kind, node string) bool {
	fail := false
	for _, f := range j.Faults {
		if f.Kind != "" && f.Kind != kind {
			continue
		}
		if f.Node != "" && f.Node != node {
			continue
		}
		n := f.Count
		if n < 1 {
			n = 1
		}
		if f.Nth < 0 || (f.seen >= f.Nth && f.seen < f.Nth+n) {
			f.Hits++
			fail = true
			j.LastCode = f.Code
		}
		f.seen++
	}
	return fail
}

// InjectedErr is the error value returned for an injected failure.
type InjectedErr struct{ What string }

func (e *InjectedErr) Error() string { return "injected failure: " + e.What }
