// Package ref holds the small reference pieces the oracles are built from. Each is an
// independent restatement of a sentence of the property file or the documentation; none
// calls into escalator.
package ref

import (
	"math/big"
	"strconv"
	"time"

	v1 "k8s.io/api/core/v1"
	"k8s.io/apimachinery/pkg/api/resource"
)

const (
	TaintKey      = "atlassian.com/escalator"
	ForceTaintKey = "atlassian.com/escalator-force"
	NoDeleteKey   = "atlassian.com/no-delete"
	StaticSource  = "kubernetes.io/config.source"
)

// IsDaemonSetPod: owned by a DaemonSet.
func IsDaemonSetPod(p *v1.Pod) bool {
	for _, o := range p.OwnerReferences {
		if o.Kind == "DaemonSet" {
			return true
		}
	}
	return false
}

// IsStaticPod: created by the kubelet from a manifest file.
func IsStaticPod(p *v1.Pod) bool {
	return p.Annotations[StaticSource] == "file"
}

// Tri is a three-valued answer: the property decides yes, no, or does not decide.
type Tri int

const (
	No Tri = iota
	Yes
	Either
)

// PodInLabelGroup restates C14 for a labelled group.
func PodInLabelGroup(p *v1.Pod, key, value string) bool {
	if IsDaemonSetPod(p) {
		return false
	}
	if v, ok := p.Spec.NodeSelector[key]; ok && v == value {
		return true
	}
	a := p.Spec.Affinity
	if a == nil || a.NodeAffinity == nil || a.NodeAffinity.RequiredDuringSchedulingIgnoredDuringExecution == nil {
		return false
	}
	for _, term := range a.NodeAffinity.RequiredDuringSchedulingIgnoredDuringExecution.NodeSelectorTerms {
		for _, ex := range term.MatchExpressions {
			if ex.Key != key || ex.Operator != v1.NodeSelectorOpIn {
				continue
			}
			for _, val := range ex.Values {
				if val == value {
					return true
				}
			}
		}
	}
	return false
}

// PodInDefaultGroup restates C14 for the group named default. A pod whose Affinity is
// non-nil but carries no rule at all is not decided by the sentence ("no affinity rules").
func PodInDefaultGroup(p *v1.Pod) Tri {
	if IsDaemonSetPod(p) || IsStaticPod(p) {
		return No
	}
	if len(p.Spec.NodeSelector) != 0 {
		return No
	}
	a := p.Spec.Affinity
	if a == nil {
		return Yes
	}
	if a.NodeAffinity == nil && a.PodAffinity == nil && a.PodAntiAffinity == nil {
		return Yes // `affinity: {}` (what templating usually renders): an empty object holds no affinity rule
	}
	if affinityHasRule(a) {
		return No
	}
	return Either // non-nil sub-structures without any rule inside
}

func affinityHasRule(a *v1.Affinity) bool {
	if na := a.NodeAffinity; na != nil {
		if r := na.RequiredDuringSchedulingIgnoredDuringExecution; r != nil && len(r.NodeSelectorTerms) > 0 {
			return true
		}
		if len(na.PreferredDuringSchedulingIgnoredDuringExecution) > 0 {
			return true
		}
	}
	if pa := a.PodAffinity; pa != nil {
		if len(pa.RequiredDuringSchedulingIgnoredDuringExecution) > 0 || len(pa.PreferredDuringSchedulingIgnoredDuringExecution) > 0 {
			return true
		}
	}
	if pa := a.PodAntiAffinity; pa != nil {
		if len(pa.RequiredDuringSchedulingIgnoredDuringExecution) > 0 || len(pa.PreferredDuringSchedulingIgnoredDuringExecution) > 0 {
			return true
		}
	}
	return false
}

// NodeInGroup: labels map the key to exactly the value.
func NodeInGroup(n *v1.Node, key, value string) bool {
	v, ok := n.Labels[key]
	return ok && v == value
}

// HasTaint reports whether the node carries a taint with the key, and returns the first one.
func HasTaint(n *v1.Node, key string) (v1.Taint, bool) {
	for _, t := range n.Spec.Taints {
		if t.Key == key {
			return t, true
		}
	}
	return v1.Taint{}, false
}

// TaintTime parses the escalator taint's value as a base-10 int64 Unix time.
func TaintTime(n *v1.Node) (time.Time, bool) {
	t, ok := HasTaint(n, TaintKey)
	if !ok {
		return time.Time{}, false
	}
	ts, err := strconv.ParseInt(t.Value, 10, 64)
	if err != nil {
		return time.Time{}, false
	}
	return time.Unix(ts, 0), true
}

// TaintTimes returns every readable taint time recorded under the escalator key (a node may
// carry the key more than once, with different effects) and whether any escalator taint exists.
func TaintTimes(n *v1.Node) (times []time.Time, any bool) {
	for _, t := range n.Spec.Taints {
		if t.Key != TaintKey {
			continue
		}
		any = true
		if ts, err := strconv.ParseInt(t.Value, 10, 64); err == nil {
			times = append(times, time.Unix(ts, 0))
		}
	}
	return
}

// NoDelete reports whether the node carries a non-empty no-delete annotation.
func NoDelete(n *v1.Node) bool { return n.Annotations[NoDeleteKey] != "" }

// Class of a node in a (non-dry) scan.
type Class int

const (
	Cordoned Class = iota
	ForceTainted
	Tainted
	Untainted
)

func (c Class) String() string {
	return [...]string{"cordoned", "force", "tainted", "untainted"}[c]
}

// Classify restates the classification of the docs: cordoned first, then force, then tainted.
func Classify(n *v1.Node) Class {
	if n.Spec.Unschedulable {
		return Cordoned
	}
	if _, ok := HasTaint(n, ForceTaintKey); ok {
		return ForceTainted
	}
	if _, ok := HasTaint(n, TaintKey); ok {
		return Tainted
	}
	return Untainted
}

// qMilli returns the quantity in thousandths, rounded up (exact for whole milli values).
func qMilli(q resource.Quantity) *big.Int { return big.NewInt(q.MilliValue()) }

// qUnits returns the quantity in whole units, rounded up.
func qUnits(q resource.Quantity) *big.Int { return big.NewInt(q.Value()) }

// PodRequest returns (milliCPU, memory bytes) of one pod per the C13 definition:
// max(sum of containers, largest init container) + overhead, per resource.
func PodRequest(p *v1.Pod) (cpu, mem *big.Int) {
	cpu, mem = new(big.Int), new(big.Int)
	for _, c := range p.Spec.Containers {
		if q, ok := c.Resources.Requests[v1.ResourceCPU]; ok {
			cpu.Add(cpu, qMilli(q))
		}
		if q, ok := c.Resources.Requests[v1.ResourceMemory]; ok {
			mem.Add(mem, qUnits(q))
		}
	}
	for _, c := range p.Spec.InitContainers {
		if q, ok := c.Resources.Requests[v1.ResourceCPU]; ok {
			if v := qMilli(q); v.Cmp(cpu) > 0 {
				cpu = v
			}
		}
		if q, ok := c.Resources.Requests[v1.ResourceMemory]; ok {
			if v := qUnits(q); v.Cmp(mem) > 0 {
				mem = v
			}
		}
	}
	if q, ok := p.Spec.Overhead[v1.ResourceCPU]; ok {
		cpu = new(big.Int).Add(cpu, qMilli(q))
	}
	if q, ok := p.Spec.Overhead[v1.ResourceMemory]; ok {
		mem = new(big.Int).Add(mem, qUnits(q))
	}
	return
}

// Requests sums PodRequest over the pods.
func Requests(pods []*v1.Pod) (cpu, mem *big.Int) {
	cpu, mem = new(big.Int), new(big.Int)
	for _, p := range pods {
		c, m := PodRequest(p)
		cpu.Add(cpu, c)
		mem.Add(mem, m)
	}
	return
}

// Capacity sums allocatable CPU (milli) and memory (bytes) over the nodes.
func Capacity(nodes []*v1.Node) (cpu, mem *big.Int) {
	cpu, mem = new(big.Int), new(big.Int)
	for _, n := range nodes {
		if q, ok := n.Status.Allocatable[v1.ResourceCPU]; ok {
			cpu.Add(cpu, qMilli(q))
		}
		if q, ok := n.Status.Allocatable[v1.ResourceMemory]; ok {
			mem.Add(mem, qUnits(q))
		}
	}
	return
}

// Band is the decision band of C06.
type Band int

const (
	BandFast Band = iota // u < lower
	BandSlow             // lower <= u < upper
	BandNone             // upper <= u <= scale-up
	BandUp               // u > scale-up
)

func (b Band) String() string { return [...]string{"fast", "slow", "none", "up"}[b] }

// cmpPct compares 100*req with T*cap exactly: -1, 0, +1; near reports that the two
// sides are unequal but closer than 2^-30 relative (float tolerance zone).
func cmpPct(req, cap *big.Int, T int64) (c int, near bool) {
	l := new(big.Int).Mul(req, big.NewInt(100))
	r := new(big.Int).Mul(cap, big.NewInt(T))
	c = l.Cmp(r)
	if c != 0 {
		d := new(big.Int).Sub(l, r)
		d.Abs(d)
		d.Lsh(d, 30)
		if d.Cmp(r) < 0 {
			near = true
		}
	}
	return
}

// exactInFloat64 reports whether the integer is exactly representable as a float64.
func exactInFloat64(n *big.Int) bool {
	if n.Sign() == 0 {
		return true
	}
	return n.BitLen()-int(n.TrailingZeroBits()) <= 53
}

// floatSafe reports whether escalator's float64 percentage (request*100/capacity, both taken
// in thousandths of the unit: millicores, milli-bytes) is computed without any rounding before
// the division, so that exact equality with an integer threshold is representable.
func floatSafe(req, cap *big.Int, scale int64) bool {
	r := new(big.Int).Mul(req, big.NewInt(scale))
	c := new(big.Int).Mul(cap, big.NewInt(scale))
	return exactInFloat64(r) && exactInFloat64(new(big.Int).Mul(r, big.NewInt(100))) && exactInFloat64(c)
}

// FloatSafe is floatSafe for callers outside the package.
func FloatSafe(req, cap *big.Int, scale int64) bool { return floatSafe(req, cap, scale) }

// cmpMax compares u = max(cpu%, mem%) with T; fuzzy says that the deciding comparison sits
// in the float tolerance zone (unequal but closer than 2^-30 relative), or is an exact
// equality at magnitudes where float64 cannot be relied on to reproduce it.
func cmpMax(reqC, capC, reqM, capM *big.Int, T int64) (c int, fuzzy bool) {
	cc, nc := cmpPct(reqC, capC, T)
	cm, nm := cmpPct(reqM, capM, T)
	c = cc
	if cm > c {
		c = cm
	}
	fuzzy = nc || nm
	if cc == 0 && !floatSafe(reqC, capC, 1) {
		fuzzy = true
	}
	if cm == 0 && !floatSafe(reqM, capM, 1000) {
		fuzzy = true
	}
	return
}

// Bands returns the set of acceptable bands for the given exact totals and thresholds
// (lower L, upper U, scale-up S). Capacities must be positive. Rules (DESIGN 3.3):
// u = L -> slow, u = U -> none (docs: "utilisation has to be lower than the threshold"),
// u = S -> none or up (docs contradict each other); comparisons inside the float
// tolerance zone accept both neighbours.
func Bands(reqC, capC, reqM, capM *big.Int, L, U, S int64) (set [4]bool, edge string) {
	cl, fl := cmpMax(reqC, capC, reqM, capM, L)
	cu, fu := cmpMax(reqC, capC, reqM, capM, U)
	cs, fs := cmpMax(reqC, capC, reqM, capM, S)
	var b Band
	switch {
	case cl < 0:
		b = BandFast
	case cu < 0:
		b = BandSlow
	case cs <= 0:
		b = BandNone
	default:
		b = BandUp
	}
	set[b] = true
	switch {
	case cl == 0:
		edge = "=L"
	case cu == 0:
		edge = "=U"
	case cs == 0:
		edge = "=S"
	}
	if fl {
		set[BandFast], set[BandSlow] = true, true
		edge += "~L"
	}
	if fu {
		set[BandSlow], set[BandNone] = true, true
		edge += "~U"
	}
	if fs || cs == 0 {
		set[BandNone], set[BandUp] = true, true
		if fs {
			edge += "~S"
		}
	}
	return
}

// Need returns the least d >= 0 such that 100*req <= T*(n+d)*size for both resources
// (size per node; sizes must be positive).
func Need(reqC, reqM *big.Int, n int64, sizeC, sizeM *big.Int, T int64) int64 {
	need := func(req, size *big.Int) int64 {
		// least k with 100*req <= T*k*size  ->  k = ceil(100*req / (T*size))
		num := new(big.Int).Mul(req, big.NewInt(100))
		den := new(big.Int).Mul(size, big.NewInt(T))
		q, r := new(big.Int).QuoRem(num, den, new(big.Int))
		k := q.Int64()
		if r.Sign() > 0 {
			k++
		}
		return k
	}
	k := need(reqC, sizeC)
	if km := need(reqM, sizeM); km > k {
		k = km
	}
	if k-n < 0 {
		return 0
	}
	return k - n
}
