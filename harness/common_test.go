//go:build verif

package verifharness

import (
	"encoding/json"
	"fmt"
	"os"
	"runtime/debug"
	"strings"
	"testing"

	"pgregory.net/rapid"

	"verifharness/stats"
	"verifharness/world"
)

// known findings (open entries suppress exactly their signature; fixed entries suppress nothing)
type knownFinding struct {
	Status    string `json:"status"`
	Property  string `json:"property"`
	Signature string `json:"signature"`
	What      string `json:"what"`
	Commit    string `json:"commit,omitempty"`
}

var openFindings = map[string]bool{}

func init() {
	path := os.Getenv("VERIF_KNOWN")
	if path == "" {
		path = "../known_findings.json"
	}
	b, err := os.ReadFile(path)
	if err != nil {
		return
	}
	var fs []knownFinding
	if json.Unmarshal(b, &fs) != nil {
		return
	}
	for _, f := range fs {
		if f.Status == "open" {
			openFindings[f.Signature] = true
		}
	}
}

func isKnown(sig string) bool { return openFindings[sig] }

// collector life cycle: one per test function, written when the test ends.
func newCollector(t *testing.T, prop, rule string) *stats.Collector {
	c := stats.New(prop, rule)
	t.Cleanup(func() {
		if path := os.Getenv("VERIF_STATS"); path != "" {
			if err := c.Write(path); err != nil {
				t.Logf("cannot write stats: %v", err)
			}
		}
	})
	return c
}

// dumpFailure writes the human-readable history next to rapid's fail file.
func dumpFailure(prop string, w *world.World, rec *world.ScanRecord, v world.Violation) {
	path := os.Getenv("VERIF_DUMP")
	if path == "" {
		return
	}
	var b strings.Builder
	fmt.Fprintf(&b, "VIOLATION %s\n\nconfiguration:\n", v.String())
	cfg, _ := json.MarshalIndent(w.Cfg, "", " ")
	b.Write(cfg)
	fmt.Fprintf(&b, "\n\nhistory (%d actions):\n%s\n", len(w.Log), w.Dump())
	if rec != nil {
		fmt.Fprintf(&b, "failing scan:\n%s\n", rec.Describe(w))
	}
	_ = os.WriteFile(path, []byte(b.String()), 0o644)
}

// historyOpts configures one history check.
type historyOpts struct {
	prop    string
	profile *world.Profile
	col     *stats.Collector
	// classify returns the non-triviality keys of a scan (empty = trivial)
	classify func(w *world.World, rec *world.ScanRecord) []string
	// extra runs additional per-scan checks for this property
	extra func(w *world.World, rec *world.ScanRecord) []world.Violation
	// setup may tweak the world after initialisation (drawing through rt)
	setup func(rt *rapid.T, w *world.World)
	// alsoFatal lists other properties whose monitor verdicts fail this check too
	sampleEvery int
}

// judge handles the verdicts of one scan. It fails the case for an unlisted violation of
// the check's own property; violations of other properties are only counted.
func judge(rt *rapid.T, o *historyOpts, w *world.World, rec *world.ScanRecord, vs []world.Violation) {
	for _, v := range vs {
		if v.Prop != o.prop {
			o.col.Add("seen-other:"+v.Sig, 1)
			continue
		}
		if isKnown(v.Sig) {
			o.col.KnownFinding(v.Sig)
			continue
		}
		dumpFailure(o.prop, w, rec, v)
		rt.Logf("history:\n%s\nfailing scan:\n%s", w.Dump(), rec.Describe(w))
		// the failure message must be a pure function of the drawn values (rapid compares
		// messages while shrinking); the journal goes to the log and the dump file instead
		rt.Fatalf("VIOLATION %s", v.Sig)
	}
}

func sampleOf(w *world.World, rec *world.ScanRecord) any {
	var acts []string
	for _, a := range w.Log {
		acts = append(acts, a.String())
	}
	return map[string]any{"actions": acts, "last_scan": strings.Split(strings.TrimSpace(rec.Describe(w)), "\n")}
}

// runHistory draws a configuration and a history and runs every monitor after each scan.
func runHistory(rt *rapid.T, o *historyOpts) {
	rapid.SyncTest(rt, func(rt *rapid.T) {
		cfg := world.DrawConfig(rt, o.profile)
		w := world.New(cfg)
		w.Init(rt)
		if o.setup != nil {
			o.setup(rt, w)
		}
		o.col.Case()
		steps := 0
		nontrivialSeen := false
		step := func(rt *rapid.T) {
			steps++
			a, label := w.DrawAction(rt, o.profile)
			o.col.Class("op:" + label)
			w.Apply(a)
			for _, rec := range w.DrainRecs() {
				judgeScan(rt, o, w, rec, &nontrivialSeen)
			}
		}
		rt.Repeat(map[string]func(*rapid.T){"step": step})
	})
}

// judgeScan runs every monitor on one scan and records its classes.
func judgeScan(rt *rapid.T, o *historyOpts, w *world.World, rec *world.ScanRecord, nontrivialSeen *bool) {
	o.col.Eval(1)
	if rec.View == nil {
		o.col.Class("scan:controller-build-failed")
		return
	}
	for _, gr := range rec.Groups {
		if gr.Processed {
			o.col.Add("scans-attributed-to-a-group", 1)
			break
		}
	}
	for _, gr := range rec.Groups {
		if gr.Processed && gr.Gauge["pods"] != world.GaugeUnset {
			o.col.Add("scans-with-count-gauges", 1)
			break
		}
	}
	vs := w.CheckAll(rec)
	if o.extra != nil {
		vs = append(vs, o.extra(w, rec)...)
	}
	judge(rt, o, w, rec, vs)
	keys := o.classify(w, rec)
	if len(keys) > 0 {
		// distinct non-trivial cases are counted by the full situation of the scan, the
		// coarse class keys only feed the histogram
		o.col.Nontrivial(rec.SituationKey(w))
	}
	for _, key := range keys {
		parts := strings.SplitN(key, "|", 3)
		if len(parts) > 2 {
			parts = parts[:2]
		}
		o.col.Class("nontrivial:" + strings.Join(parts, "|"))
		if !*nontrivialSeen {
			*nontrivialSeen = true
			o.col.Sample(sampleOf(w, rec))
		}
	}
}

// bigProfile turns a history profile into its large-group variant: group 0 has tens to a
// hundred-odd nodes, histories are short, and bulk environment steps touch many nodes at once.
func bigProfile(p *world.Profile) *world.Profile {
	q := *p
	q.Name += "-big"
	q.Big = true
	q.MaxInit = 150
	if q.MaxGroups > 2 {
		q.MaxGroups = 2
	}
	q.Steps = 8
	if q.Fleet == 1 {
		q.Fleet = 3 // half of the groups buy capacity through fleet requests
	}
	q.Weights = with(p.Weights, "bulk", 8, "bulkAnd", 8, "scan", 12, "bigFleetAttachFails", 4)
	return &q
}

func historyCheck(t *testing.T, o *historyOpts) {
	if strings.HasSuffix(t.Name(), "Big") {
		o.profile = bigProfile(o.profile)
		o.col.Rule = "large-group variant (9-150 nodes, bulk steps); " + o.col.Rule
	}
	o.col.Rule += "; distinct cases are counted by the situation digest of each non-trivial scan (per group: configuration numbers, every node's class / taint-age bucket / occupancy / protection, exact request and capacity totals, lock state, actions taken); the coarse class of each non-trivial scan is in class_histogram"
	rapid.Check(t, func(rt *rapid.T) { runHistory(rt, o) })
	// observation health: the monitors judge what the journal attributes to a group. If, over a whole run,
	// no scan could be attributed to any group, the checks have judged nothing - that is a broken
	// observation point (reported as inconclusive by the driver), not a pass.
	if !t.Failed() && o.col.Evaluations >= 200 && o.col.Extra["scans-attributed-to-a-group"] == 0 {
		t.Fatalf("harness: none of %d scans could be attributed to a node group (the journal segmentation found no group start): nothing was judged", o.col.Evaluations)
	}
	if !t.Failed() && (o.prop == "C13" || o.prop == "C14") && o.col.Evaluations >= 200 && o.col.Extra["scans-with-count-gauges"] == 0 {
		t.Fatalf("harness: none of %d scans set the pod / node count gauges the %s history check reads: nothing was judged", o.col.Evaluations, o.prop)
	}
}

// weights shared by most history profiles
func baseWeights() map[string]int {
	return map[string]int{
		"scan": 10, "targetUtil": 8, "advance": 6, "addPods": 2, "finishPods": 1, "clearNode": 2, "schedule": 1,
		"launch": 2, "reconcile": 1, "register": 2, "gcNodes": 1, "cordon": 2, "taintExt": 3, "foreignTaint": 1,
		"removeTaint": 1, "annotate": 1, "asgDesired": 1, "restart": 1, "notReady": 1, "gracefulDelete": 1, "heartbeat": 1, "settle": 1,
	}
}

func with(w map[string]int, kv ...any) map[string]int {
	out := map[string]int{}
	for k, v := range w {
		out[k] = v
	}
	for i := 0; i+1 < len(kv); i += 2 {
		out[kv[i].(string)] = kv[i+1].(int)
	}
	return out
}

func dumpPath() string { return os.Getenv("VERIF_DUMP") }

func writeFile(path, content string) error { return os.WriteFile(path, []byte(content), 0o644) }

func isThorough() bool { return os.Getenv("VERIF_TIER") == "thorough" }

// callTarget runs a call into escalator and turns a panic inside it into a violation of the
// check's property (the call must contain no rapid draws or assertions).
func callTarget(rt *rapid.T, prop, what string, f func()) {
	defer func() {
		if r := recover(); r != nil {
			if strings.Contains(fmt.Sprintf("%T", r), "exitSentinel") {
				panic(r)
			}
			msg := fmt.Sprintf("%s panicked: %v\n%s", what, r, debug.Stack())
			if p := dumpPath(); p != "" {
				_ = writeFile(p, "VIOLATION "+prop+":panic-in-code-under-test\n"+msg+"\n")
			}
			rt.Logf("%s", msg)
			rt.Fatalf("VIOLATION %s:panic-in-code-under-test", prop)
		}
	}()
	f()
}
