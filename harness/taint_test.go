//go:build verif

package verifharness

import (
	"fmt"
	"reflect"
	"strings"
	"testing"
	"time"

	"github.com/atlassian/escalator/pkg/k8s"
	v1 "k8s.io/api/core/v1"
	"k8s.io/apimachinery/pkg/api/resource"
	metav1 "k8s.io/apimachinery/pkg/apis/meta/v1"
	"pgregory.net/rapid"

	"verifharness/ref"
	"verifharness/sim"
	"verifharness/world"
)

var foreignKeys = []string{"node.kubernetes.io/unreachable", "dedicated", ref.ForceTaintKey, "atlassian.com/escalatorx", "atlassian.com/escalato", "atlassian.com", "Atlassian.com/escalator", "spot"}

func drawTaints(rt *rapid.T, label string, max int) []v1.Taint {
	var out []v1.Taint
	for i, n := 0, rapid.IntRange(0, max).Draw(rt, label+"N"); i < n; i++ {
		tt := v1.Taint{Key: rapid.SampledFrom(foreignKeys).Draw(rt, label+"Key"), Value: rapid.SampledFrom([]string{"", "x", "123", "946684800"}).Draw(rt, label+"Val"),
			Effect: v1.TaintEffect(rapid.SampledFrom([]string{"NoSchedule", "NoExecute", "PreferNoSchedule", ""}).Draw(rt, label+"Eff"))}
		if rapid.IntRange(0, 5).Draw(rt, label+"TimeAdded") == 0 {
			ta := metav1.NewTime(time.Unix(946684000, 0))
			tt.TimeAdded = &ta
		}
		out = append(out, tt)
	}
	return out
}

// TestC15Direct drives AddToBeRemovedTaint / DeleteToBeRemovedTaint on arbitrary node objects.
func TestC15Direct(t *testing.T) {
	col := newCollector(t, "C15", "direct: an arbitrary node (0-6 foreign taints in any order incl. the force key and near-miss keys, labels, annotations, unschedulable, provider id, status) stored in the simulated API; the caller's copy fresh or stale; taint / untaint / re-taint sequences with injected GET/PUT failures; oracle = the object sent in PUT equals the stored object plus/minus exactly the escalator taint; non-trivial = >= 3 foreign taints with the escalator taint not last, or a stale caller copy that lacks a taint the API has; distinct by (op sequence, foreign taints, position, stale, effect)")
	rapid.Check(t, func(rt *rapid.T) {
		rapid.SyncTest(rt, func(rt *rapid.T) {
			col.Case()
			j := sim.NewJournal()
			api := sim.NewK8s(j)
			node := &v1.Node{ObjectMeta: metav1.ObjectMeta{Name: "n1", Labels: map[string]string{"pool": "a"}, Annotations: map[string]string{}, CreationTimestamp: metav1.NewTime(time.Unix(946000000, 0))}}
			for i, n := 0, rapid.IntRange(0, 3).Draw(rt, "labels"); i < n; i++ {
				node.Labels[fmt.Sprintf("l%d", i)] = rapid.SampledFrom([]string{"", "v", "x"}).Draw(rt, "labelVal")
			}
			for i, n := 0, rapid.IntRange(0, 3).Draw(rt, "annotations"); i < n; i++ {
				node.Annotations[rapid.SampledFrom([]string{ref.NoDeleteKey, "a/b", "c"}).Draw(rt, "annKey")] = rapid.SampledFrom([]string{"", "true", "why"}).Draw(rt, "annVal")
			}
			node.Spec.Unschedulable = rapid.IntRange(0, 4).Draw(rt, "unschedulable") == 0
			node.Spec.ProviderID = rapid.SampledFrom([]string{"", "aws:///us-east-1a/i-0123", "gce://x"}).Draw(rt, "providerID")
			node.Spec.PodCIDR = "10.0.0.0/24"
			node.Status.Allocatable = v1.ResourceList{v1.ResourceCPU: resource.MustParse("4"), v1.ResourceMemory: resource.MustParse("16Gi")}
			node.Status.Conditions = []v1.NodeCondition{{Type: v1.NodeReady, Status: v1.ConditionTrue}}
			node.Spec.Taints = drawTaints(rt, "foreign", 6)
			preTainted := rapid.IntRange(0, 3).Draw(rt, "preTainted") == 0
			if preTainted {
				pos := rapid.IntRange(0, len(node.Spec.Taints)).Draw(rt, "escPos")
				esc := v1.Taint{Key: ref.TaintKey, Value: rapid.SampledFrom([]string{"946684000", "abc", ""}).Draw(rt, "escVal"), Effect: v1.TaintEffectNoExecute}
				ts := append([]v1.Taint{}, node.Spec.Taints[:pos]...)
				ts = append(ts, esc)
				node.Spec.Taints = append(ts, node.Spec.Taints[pos:]...)
			}
			api.PutNode(node)
			effect := v1.TaintEffect(rapid.SampledFrom([]string{"", "NoSchedule", "NoExecute", "PreferNoSchedule"}).Draw(rt, "effect"))
			nOps := rapid.IntRange(1, 5).Draw(rt, "ops")
			seq := ""
			nontrivial := false
			for i := 0; i < nOps; i++ {
				op := rapid.SampledFrom([]string{"taint", "untaint"}).Draw(rt, "op")
				seq += op[:1]
				// between calls the environment may change the node and time passes
				if rapid.IntRange(0, 2).Draw(rt, "envChange") == 0 {
					cur := api.Nodes["n1"]
					extra := drawTaints(rt, "extra", 2)
					if rapid.Bool().Draw(rt, "prepend") {
						cur.Spec.Taints = append(extra, cur.Spec.Taints...)
					} else {
						cur.Spec.Taints = append(cur.Spec.Taints, extra...)
					}
					cur.Labels["changed"] = fmt.Sprint(i)
				}
				time.Sleep(time.Duration(rapid.IntRange(0, 5000).Draw(rt, "sleepMs")) * time.Millisecond)
				// the caller's copy: fresh, or a stale one from before the latest changes
				caller := api.Nodes["n1"].DeepCopy()
				stale := rapid.IntRange(0, 2).Draw(rt, "staleCopy") == 0
				if stale {
					caller = node.DeepCopy()
					caller.Spec.Taints = drawTaints(rt, "staleTaints", 3)
				}
				failure := rapid.SampledFrom([]string{"", "", "", "get", "update", "conflict"}).Draw(rt, "failure")
				api.OnConflict = nil
				switch failure {
				case "get":
					j.Arm([]sim.Fault{{Kind: sim.KGet, Nth: 0}})
				case "update":
					j.Arm([]sim.Fault{{Kind: sim.KUpdate, Nth: 0}})
				case "conflict": // the first update loses against a concurrent writer that changes the taints
					j.Arm([]sim.Fault{{Kind: sim.KUpdate, Nth: 0}})
					extra := drawTaints(rt, "concurrent", 2)
					dropFirst := rapid.Bool().Draw(rt, "concurrentDrop")
					otherReplica := rapid.IntRange(0, 2).Draw(rt, "otherReplicaTaints") == 0
					api.OnConflict = func(stored *v1.Node) {
						if dropFirst && len(stored.Spec.Taints) > 0 && stored.Spec.Taints[0].Key != ref.TaintKey {
							stored.Spec.Taints = stored.Spec.Taints[1:]
						}
						stored.Spec.Taints = append(stored.Spec.Taints, extra...)
						if _, has := ref.HasTaint(stored, ref.TaintKey); otherReplica && !has {
							stored.Spec.Taints = append(stored.Spec.Taints, v1.Taint{Key: ref.TaintKey, Value: "946684001", Effect: v1.TaintEffectNoSchedule})
						}
					}
				}
				before := api.Nodes["n1"].DeepCopy()
				mark := j.Mark()
				var ret *v1.Node
				var err error
				callTarget(rt, "C15", op, func() {
					if op == "taint" {
						ret, err = k8s.AddToBeRemovedTaint(caller, api, effect)
					} else {
						ret, err = k8s.DeleteToBeRemovedTaint(caller, api)
					}
				})
				es := j.Since(mark)
				hits := j.Disarm()
				col.Eval(1)
				after := api.Nodes["n1"]
				desc := func() string {
					var b strings.Builder
					fmt.Fprintf(&b, "op %d %s effect=%q stale=%v failure=%q -> err=%v\nbefore: %v\nafter:  %v\n", i, op, effect, stale, failure, err, before.Spec.Taints, after.Spec.Taints)
					for _, e := range es {
						fmt.Fprintf(&b, "  %s\n", e.String())
					}
					return b.String()
				}
				var puts []sim.Entry
				for _, e := range es {
					if e.IsK8sWrite() {
						if e.Kind != sim.KUpdate {
							fail(rt, dumpPath(), "C15:unexpected-write:"+e.Kind, "%s", desc())
						}
						puts = append(puts, e)
					}
				}
				_, hadEsc := ref.HasTaint(before, ref.TaintKey)
				wantPut := (op == "taint" && !hadEsc) || (op == "untaint" && hadEsc)
				if failure == "get" && hits > 0 {
					wantPut = false
				}
				accepted := 0
				for _, p := range puts {
					if p.OK() {
						accepted++
					}
				}
				switch {
				case accepted > 1 || (len(puts) > 1 && failure != "conflict"):
					fail(rt, dumpPath(), "C15:more-than-one-update", "%s", desc())
				case len(puts) == 1 && !wantPut:
					sig := "C15:restamp"
					if op == "untaint" {
						sig = "C15:useless-update"
					}
					if s, _ := world.PreciseWrite(puts[0].Before, puts[0].Sent, puts[0].T, puts[0].T, effect); s != "" {
						sig = "C15:" + s
					}
					fail(rt, dumpPath(), sig, "update although the taint was %s\n%s", map[bool]string{true: "already present", false: "absent"}[hadEsc], desc())
				case len(puts) == 0 && wantPut:
					fail(rt, dumpPath(), "C15:missing-update", "%s", desc())
				}
				for _, p := range puts {
					if !p.OK() {
						continue // refused by the API: nothing was written
					}
					if sig, msg := world.PreciseWrite(p.Before, p.Sent, p.T, p.T, effect); sig != "" {
						fail(rt, dumpPath(), "C15:"+sig, "%s\n%s", msg, desc())
					}
				}
				failed := hits > 0 && accepted == 0
				if failure == "conflict" {
					// the concurrent writer changed the stored node: compare against that state
					before = api.Nodes["n1"].DeepCopy()
					if accepted > 0 {
						before = puts[len(puts)-1].Before
					}
				}
				if failed && err == nil {
					fail(rt, dumpPath(), "C15:failure-not-reported", "%s", desc())
				}
				if !failed && err != nil {
					fail(rt, dumpPath(), "C15:error-without-cause", "%s", desc())
				}
				if failed {
					// a failed call leaves the stored object as it was
					b2, a2 := before.DeepCopy(), after.DeepCopy()
					b2.ResourceVersion, a2.ResourceVersion = "", ""
					if !reflect.DeepEqual(b2, a2) {
						fail(rt, dumpPath(), "C15:failed-call-changed-node", "%s", desc())
					}
				} else {
					_, has := ref.HasTaint(after, ref.TaintKey)
					if has != (op == "taint") {
						fail(rt, dumpPath(), "C15:wrong-end-state", "%s", desc())
					}
					if ret == nil || ret.Name != "n1" {
						fail(rt, dumpPath(), "C15:returned-node", "%s", desc())
					}
					if _, rh := ref.HasTaint(ret, ref.TaintKey); rh != has {
						fail(rt, dumpPath(), "C15:returned-node-not-latest", "%s", desc())
					}
				}
				foreign, escPos := 0, -1
				for k, tt := range before.Spec.Taints {
					if tt.Key == ref.TaintKey {
						escPos = k
					} else {
						foreign++
					}
				}
				if len(puts) == 1 && ((foreign >= 3 && (op == "taint" || escPos < len(before.Spec.Taints)-1)) || stale) {
					nontrivial = true
				}
			}
			if nontrivial {
				col.Nontrivial(fmt.Sprintf("c15|%s|foreign=%d|effect=%s|pre=%v", seq, minI(len(node.Spec.Taints), 6), effect, preTainted))
				col.Sample(fmt.Sprintf("ops=%s foreign taints=%v effect=%q preTainted=%v", seq, node.Spec.Taints, effect, preTainted))
			}
		})
	})
}
