//go:build verif

package verifharness

import (
	"bytes"
	"encoding/json"
	"fmt"
	"os"
	"path/filepath"
	"reflect"
	"regexp"
	"sort"
	"strings"
	"testing"
	"time"
	"unicode/utf16"

	"github.com/atlassian/escalator/pkg/controller"
	v1 "k8s.io/api/core/v1"
	"pgregory.net/rapid"
)

func repoPath() string {
	if p := os.Getenv("VERIF_REPO"); p != "" {
		return p
	}
	return "/repo"
}

func validBaseline() controller.NodeGroupOptions {
	return controller.NodeGroupOptions{
		Name: "shared", LabelKey: "customer", LabelValue: "shared", CloudProviderGroupName: "shared-nodes",
		MinNodes: 1, MaxNodes: 30,
		TaintUpperCapacityThresholdPercent: 40, TaintLowerCapacityThresholdPercent: 10, ScaleUpThresholdPercent: 70,
		SlowNodeRemovalRate: 2, FastNodeRemovalRate: 5,
		SoftDeleteGracePeriod: "1m", HardDeleteGracePeriod: "10m", ScaleUpCoolDownPeriod: "2m",
		TaintEffect: "NoExecute", MaxNodeAge: "24h",
	}
}

func dur(s string) (time.Duration, bool) {
	d, err := time.ParseDuration(s)
	return d, err == nil
}

// unsafeReasons lists every invariant of C16 the options violate (independent of the validator).
func unsafeReasons(o controller.NodeGroupOptions) []string {
	var out []string
	add := func(c bool, s string) {
		if !c {
			out = append(out, s)
		}
	}
	add(o.Name != "", "name empty")
	add(o.LabelKey != "" && o.LabelValue != "", "label empty")
	add(o.CloudProviderGroupName != "", "cloud group empty")
	L, U, S := o.TaintLowerCapacityThresholdPercent, o.TaintUpperCapacityThresholdPercent, o.ScaleUpThresholdPercent
	add(0 < L && L < U && U < S, "thresholds not 0 < lower < upper < scale-up")
	add(0 <= o.SlowNodeRemovalRate && o.SlowNodeRemovalRate <= o.FastNodeRemovalRate, "rates not 0 <= slow <= fast")
	soft, okS := dur(o.SoftDeleteGracePeriod)
	hard, okH := dur(o.HardDeleteGracePeriod)
	add(okS && okH && 0 < soft && soft < hard, "grace periods not 0 < soft < hard")
	cd, okC := dur(o.ScaleUpCoolDownPeriod)
	add(okC && cd > 0, "cool-down not positive")
	add((o.MinNodes == 0 && o.MaxNodes == 0) || (0 <= o.MinNodes && o.MinNodes < o.MaxNodes), "min/max not (0 <= min < max) or both zero")
	switch o.TaintEffect {
	case "", v1.TaintEffectNoSchedule, v1.TaintEffectNoExecute, v1.TaintEffectPreferNoSchedule:
	default:
		out = append(out, "taint effect invalid")
	}
	switch o.AWS.Lifecycle {
	case "", "on-demand", "spot":
	default:
		out = append(out, "lifecycle invalid")
	}
	if o.MaxNodeAge != "" {
		if _, ok := dur(o.MaxNodeAge); !ok {
			out = append(out, "max_node_age unparsable")
		}
	}
	return out
}

type fieldGrid struct {
	name   string
	apply  func(o *controller.NodeGroupOptions, v []any)
	values [][]any // one value list per dimension
}

func product(dims [][]any, f func([]any)) {
	idx := make([]int, len(dims))
	for {
		cur := make([]any, len(dims))
		for i, d := range dims {
			cur[i] = d[idx[i]]
		}
		f(cur)
		k := len(dims) - 1
		for k >= 0 {
			idx[k]++
			if idx[k] < len(dims[k]) {
				break
			}
			idx[k] = 0
			k--
		}
		if k < 0 {
			return
		}
	}
}

func ints(vs ...int) []any {
	var out []any
	for _, v := range vs {
		out = append(out, v)
	}
	return out
}

func strs(vs ...string) []any {
	var out []any
	for _, v := range vs {
		out = append(out, v)
	}
	return out
}

// canonical spellings come first, then case / whitespace variants that time.ParseDuration rejects
var durVals = strs("", "0", "0s", "-1m", "1ns", "30s", "1m", "10m", "xyz", "5", "1h30m", "1M", "10M", " 1m", "1m ", "30S", "1H30M")

func validationGrids() []fieldGrid {
	th := ints(-1, 0, 1, 10, 40, 70, 100, 150)
	return []fieldGrid{
		{"thresholds", func(o *controller.NodeGroupOptions, v []any) {
			o.TaintLowerCapacityThresholdPercent, o.TaintUpperCapacityThresholdPercent, o.ScaleUpThresholdPercent = v[0].(int), v[1].(int), v[2].(int)
		}, [][]any{th, th, th}},
		{"rates", func(o *controller.NodeGroupOptions, v []any) {
			o.SlowNodeRemovalRate, o.FastNodeRemovalRate = v[0].(int), v[1].(int)
		},
			[][]any{ints(-3, -2, -1, 0, 1, 2, 5), ints(-3, -2, -1, 0, 1, 2, 5)}},
		{"graces", func(o *controller.NodeGroupOptions, v []any) {
			o.SoftDeleteGracePeriod, o.HardDeleteGracePeriod = v[0].(string), v[1].(string)
		},
			[][]any{durVals, durVals}},
		{"cooldown", func(o *controller.NodeGroupOptions, v []any) { o.ScaleUpCoolDownPeriod = v[0].(string) }, [][]any{durVals}},
		{"minmax", func(o *controller.NodeGroupOptions, v []any) { o.MinNodes, o.MaxNodes = v[0].(int), v[1].(int) },
			[][]any{ints(-1, 0, 1, 5, 10), ints(-1, 0, 1, 5, 10)}},
		{"names", func(o *controller.NodeGroupOptions, v []any) {
			o.Name, o.LabelKey, o.LabelValue, o.CloudProviderGroupName = v[0].(string), v[1].(string), v[2].(string), v[3].(string)
		}, [][]any{strs("", "default", "x"), strs("", "k"), strs("", "v"), strs("", "asg")}},
		{"effect", func(o *controller.NodeGroupOptions, v []any) { o.TaintEffect = v1.TaintEffect(v[0].(string)) },
			[][]any{strs("", "NoSchedule", "NoExecute", "PreferNoSchedule", "noschedule", "NoScheduleX", "None", " NoExecute")}},
		{"lifecycle", func(o *controller.NodeGroupOptions, v []any) { o.AWS.Lifecycle = v[0].(string) },
			[][]any{strs("", "on-demand", "spot", "Spot", "ondemand", "reserved", "capacity-block", "on_demand", "On-Demand", "SPOT", " spot", "scheduled", "capacity-optimized", "lowest-price", "spot,on-demand")}},
		{"maxage", func(o *controller.NodeGroupOptions, v []any) { o.MaxNodeAge = v[0].(string) }, [][]any{durVals}},
	}
}

func judgeValidation(o controller.NodeGroupOptions) (sig, msg string, accepted bool, reasons []string) {
	errs := controller.ValidateNodeGroup(o)
	reasons = unsafeReasons(o)
	accepted = len(errs) == 0
	if accepted && len(reasons) > 0 {
		cls := strings.Fields(reasons[0])[0]
		return "C16:accepted-unsafe:" + cls, fmt.Sprintf("validation accepts %+v although: %v", o, reasons), accepted, reasons
	}
	return "", "", accepted, reasons
}

// TestC16Validation: accepted => every invariant. One grid per conjunct, enumerated completely,
// plus random sampling of the full product.
func TestC16Validation(t *testing.T) {
	col := newCollector(t, "C16", "validation: for each conjunct the full product of a small value set of the fields it reads (all other fields valid), enumerated completely; then random configurations over the full product; oracle: accepted => every listed invariant, and the documented example is accepted; non-trivial = violates exactly one invariant or none; distinct by (grid, values)")
	col.Exhaustive = true
	n := 0
	accepted := 0
	for _, g := range validationGrids() {
		product(g.values, func(v []any) {
			o := validBaseline()
			g.apply(&o, v)
			n++
			col.Eval(1)
			sig, msg, acc, reasons := judgeValidation(o)
			if acc {
				accepted++
			}
			col.Class(fmt.Sprintf("grid:%s:accepted=%v", g.name, acc))
			if len(reasons) <= 1 {
				col.Nontrivial(fmt.Sprintf("%s|%v", g.name, v))
				if n%97 == 0 {
					col.Sample(map[string]any{"grid": g.name, "values": fmt.Sprint(v), "accepted": acc, "violated": reasons})
				}
			}
			if sig != "" {
				if isKnown(sig) {
					col.KnownFinding(sig)
					return
				}
				if p := dumpPath(); p != "" {
					_ = writeFile(p, "VIOLATION "+sig+"\n"+msg+"\n")
				}
				t.Fatalf("VIOLATION %s\n%s", sig, msg)
			}
		})
	}
	if errs := controller.ValidateNodeGroup(validBaseline()); len(errs) > 0 {
		t.Fatalf("VIOLATION C16:rejects-valid-baseline\n%v", errs)
	}
	col.Cases = int64(n)
	col.Add("grid_points", n)
	col.Add("accepted", accepted)
}

func TestC16ValidationRandom(t *testing.T) {
	col := newCollector(t, "C16", "validation, random over the full product of all grids' value sets at once (interactions between conjuncts); non-trivial = accepted, or rejected for exactly one reason; distinct by the option tuple")
	grids := validationGrids()
	rapid.Check(t, func(rt *rapid.T) {
		col.Case()
		o := validBaseline()
		for _, g := range grids {
			if rapid.IntRange(0, 2).Draw(rt, g.name+"?") == 0 {
				continue
			}
			v := make([]any, len(g.values))
			for i, d := range g.values {
				v[i] = d[rapid.IntRange(0, len(d)-1).Draw(rt, fmt.Sprintf("%s%d", g.name, i))]
			}
			g.apply(&o, v)
		}
		col.Eval(1)
		sig, msg, acc, reasons := judgeValidation(o)
		if sig != "" {
			if isKnown(sig) {
				col.KnownFinding(sig)
				return
			}
			fail(rt, dumpPath(), sig, "%s", msg)
		}
		if acc || len(reasons) == 1 {
			col.Nontrivial(fmt.Sprintf("%+v", o))
			col.Sample(map[string]any{"accepted": acc, "violated": reasons, "options": fmt.Sprintf("%+v", o)})
		}
	})
}

// ---------------------------------------------------------------- decoding

type docKey struct {
	key string
	aws bool
	// get reads the decoded value, set stores a value into the source options
	get func(o controller.NodeGroupOptions) any
	gen func(rt *rapid.T) any
}

func genStr(vals ...string) func(rt *rapid.T) any {
	return func(rt *rapid.T) any { return rapid.SampledFrom(vals).Draw(rt, "s") }
}
func genInt(lo, hi int) func(rt *rapid.T) any {
	return func(rt *rapid.T) any { return rapid.IntRange(lo, hi).Draw(rt, "i") }
}
func genBool() func(rt *rapid.T) any {
	return func(rt *rapid.T) any { return rapid.Bool().Draw(rt, "b") }
}

// knownKeys maps every key the options struct is supposed to honour to its decoded field.
func knownKeys() []docKey {
	return []docKey{
		{"name", false, func(o controller.NodeGroupOptions) any { return o.Name }, genStr("shared", "default", "a-b_c", "true", "123", "x: y", "quo\"te", "#hash", "batch/spot", "rocket-\U0001F680", "gr\u00f6\u00dfe")},
		{"label_key", false, func(o controller.NodeGroupOptions) any { return o.LabelKey }, genStr("customer", "k8s.io/role")},
		{"label_value", false, func(o controller.NodeGroupOptions) any { return o.LabelValue }, genStr("shared", "v", "null", "~")},
		{"cloud_provider_group_name", false, func(o controller.NodeGroupOptions) any { return o.CloudProviderGroupName }, genStr("shared-nodes", "asg-1", "team/asg-1")},
		{"min_nodes", false, func(o controller.NodeGroupOptions) any { return o.MinNodes }, genInt(0, 50)},
		{"max_nodes", false, func(o controller.NodeGroupOptions) any { return o.MaxNodes }, genInt(0, 500)},
		{"dry_mode", false, func(o controller.NodeGroupOptions) any { return o.DryMode }, genBool()},
		{"scale_on_starve", false, func(o controller.NodeGroupOptions) any { return o.ScaleOnStarve }, genBool()},
		{"taint_upper_capacity_threshold_percent", false, func(o controller.NodeGroupOptions) any { return o.TaintUpperCapacityThresholdPercent }, genInt(-5, 150)},
		{"taint_lower_capacity_threshold_percent", false, func(o controller.NodeGroupOptions) any { return o.TaintLowerCapacityThresholdPercent }, genInt(-5, 150)},
		{"slow_node_removal_rate", false, func(o controller.NodeGroupOptions) any { return o.SlowNodeRemovalRate }, genInt(-3, 20)},
		{"fast_node_removal_rate", false, func(o controller.NodeGroupOptions) any { return o.FastNodeRemovalRate }, genInt(-3, 20)},
		{"scale_up_threshold_percent", false, func(o controller.NodeGroupOptions) any { return o.ScaleUpThresholdPercent }, genInt(-5, 200)},
		{"scale_up_cool_down_period", false, func(o controller.NodeGroupOptions) any { return o.ScaleUpCoolDownPeriod }, genStr("2m", "45s", "1h")},
		{"soft_delete_grace_period", false, func(o controller.NodeGroupOptions) any { return o.SoftDeleteGracePeriod }, genStr("1m", "30s")},
		{"hard_delete_grace_period", false, func(o controller.NodeGroupOptions) any { return o.HardDeleteGracePeriod }, genStr("10m", "2h")},
		{"taint_effect", false, func(o controller.NodeGroupOptions) any { return string(o.TaintEffect) }, genStr("NoExecute", "NoSchedule", "PreferNoSchedule")},
		{"max_node_age", false, func(o controller.NodeGroupOptions) any { return o.MaxNodeAge }, genStr("24h", "0", "90m", "12")},
		{"fleet_instance_ready_timeout", true, func(o controller.NodeGroupOptions) any { return o.AWS.FleetInstanceReadyTimeout }, genStr("1m", "30s", "60")},
		{"launch_template_id", true, func(o controller.NodeGroupOptions) any { return o.AWS.LaunchTemplateID }, genStr("lt-1a2b3c4d", "lt-0123456789abcdef0")},
		{"launch_template_version", true, func(o controller.NodeGroupOptions) any { return o.AWS.LaunchTemplateVersion }, genStr("1", "12", "$Latest")},
		{"lifecycle", true, func(o controller.NodeGroupOptions) any { return o.AWS.Lifecycle }, genStr("on-demand", "spot")},
		{"instance_type_overrides", true, func(o controller.NodeGroupOptions) any { return o.AWS.InstanceTypeOverrides }, func(rt *rapid.T) any {
			return []string{"t2.large", "t3.large", "m5.large"}[:rapid.IntRange(1, 3).Draw(rt, "n")]
		}},
		{"resource_tagging", true, func(o controller.NodeGroupOptions) any { return o.AWS.ResourceTagging }, genBool()},
	}
}

// documentedKeys parses the keys of the example in docs/configuration/nodegroup.md.
func documentedKeys() (top, aws []string, err error) {
	b, err := os.ReadFile(filepath.Join(repoPath(), "docs", "configuration", "nodegroup.md"))
	if err != nil {
		return nil, nil, err
	}
	s := string(b)
	i := strings.Index(s, "```yaml")
	j := strings.Index(s[i+7:], "```")
	if i < 0 || j < 0 {
		return nil, nil, fmt.Errorf("no yaml example in the documentation")
	}
	re := regexp.MustCompile(`^(\s*)(- )?([a-z_]+):`)
	inAWS := false
	for _, line := range strings.Split(s[i+7:i+7+j], "\n") {
		m := re.FindStringSubmatch(line)
		if m == nil {
			continue
		}
		key := m[3]
		if key == "node_groups" {
			continue
		}
		indent := len(m[1]) + len(m[2])
		if key == "aws" {
			inAWS = true
			continue
		}
		if inAWS && indent >= 8 {
			aws = append(aws, key)
		} else {
			inAWS = false
			top = append(top, key)
		}
	}
	// keys documented under "### `aws.xxx`" headings
	for _, m := range regexp.MustCompile("(?m)^### `aws\\.([a-z_]+)`").FindAllStringSubmatch(s, -1) {
		k := m[1]
		if k == "lifecyle" { // heading typo in the docs for aws.lifecycle
			k = "lifecycle"
		}
		found := false
		for _, a := range aws {
			if a == k {
				found = true
			}
		}
		if !found {
			aws = append(aws, k)
		}
	}
	return top, aws, nil
}

func yamlScalar(v any) string {
	switch x := v.(type) {
	case string:
		b, _ := json.Marshal(x) // a JSON string is a valid double-quoted YAML scalar
		return string(b)
	case []string:
		var parts []string
		for _, s := range x {
			parts = append(parts, yamlScalar(s))
		}
		return "[" + strings.Join(parts, ", ") + "]"
	}
	return fmt.Sprint(v)
}

type groupSrc map[string]any // key -> value, "aws" -> map[string]any

func renderYAML(groups []groupSrc, style int, pad int) string {
	var b strings.Builder
	if pad > 8192 { // a long leading comment pushes the groups far into the stream
		for b.Len() < pad {
			b.WriteString("# " + strings.Repeat("padding ", 9) + "\n")
		}
		pad = 0
	}
	b.WriteString("node_groups:\n")
	for _, g := range groups {
		keys := sortedKeys(g)
		first := true
		for _, k := range keys {
			prefix := "    "
			if first {
				prefix = "  - "
				first = false
			}
			if k == "aws" {
				fmt.Fprintf(&b, "%saws:\n", prefix)
				am := g[k].(map[string]any)
				for _, ak := range sortedKeys(am) {
					if s, ok := am[ak].(string); ok && style == 2 && bareNumber.MatchString(s) {
						fmt.Fprintf(&b, "        %s: %s\n", ak, s) // launch_template_version: 1
						continue
					}
					fmt.Fprintf(&b, "        %s: %s\n", ak, yamlScalar(am[ak]))
				}
				continue
			}
			v := g[k]
			if s, ok := v.(string); ok && style == 2 && bareNumber.MatchString(s) {
				fmt.Fprintf(&b, "%s%s: %s\n", prefix, k, s) // max_node_age: 0
			} else if s, ok := v.(string); ok && style == 1 && regexp.MustCompile(`^[a-zA-Z][a-zA-Z0-9_.-]*$`).MatchString(s) && !isYAMLKeyword(s) {
				fmt.Fprintf(&b, "%s%s: %s\n", prefix, k, s) // plain scalar
			} else {
				fmt.Fprintf(&b, "%s%s: %s\n", prefix, k, yamlScalar(v))
			}
		}
	}
	if pad > 0 {
		b.WriteString("# " + strings.Repeat("padding ", pad/8+1) + "\n")
	}
	return b.String()
}

// strings that YAML reads as an integer when written without quotes (escalator's string options accept them)
var bareNumber = regexp.MustCompile(`^(0|[1-9][0-9]*)$`)

func isYAMLKeyword(s string) bool {
	switch strings.ToLower(s) {
	case "true", "false", "null", "yes", "no", "on", "off", "y", "n":
		return true
	}
	return false
}

func sortedKeys[V any](m map[string]V) []string {
	var ks []string
	for k := range m {
		ks = append(ks, k)
	}
	sort.Strings(ks)
	return ks
}

// renderJSON writes the groups as JSON. escapes: 0 = as Go's encoder writes strings; 1 = with the
// solidus escaped ("\/", as several encoders do by default); 2 = ASCII only (every other character
// as a \uXXXX escape, surrogate pairs above the BMP) plus the escaped solidus. All are the same JSON text.
func renderJSON(groups []groupSrc, indent bool, pad int, escapes ...int) string {
	doc := map[string]any{"node_groups": groups}
	var b []byte
	if indent {
		b, _ = json.MarshalIndent(doc, "", "  ")
	} else {
		b, _ = json.Marshal(doc)
	}
	if len(escapes) > 0 && escapes[0] > 0 {
		var sb strings.Builder
		for _, r := range string(b) {
			switch {
			case r == '/': // only occurs inside strings
				sb.WriteString(`\/`)
			case r > 0x7e && escapes[0] == 2 && r > 0xffff:
				r1, r2 := utf16.EncodeRune(r)
				fmt.Fprintf(&sb, `\u%04x\u%04x`, r1, r2)
			case r > 0x7e && escapes[0] == 2:
				fmt.Fprintf(&sb, `\u%04x`, r)
			default:
				sb.WriteRune(r)
			}
		}
		b = []byte(sb.String())
	}
	if pad > 0 { // leading whitespace keeps it JSON and pushes content past the sniff buffer
		return strings.Repeat(" ", pad) + string(b)
	}
	return string(b)
}

func TestC16Decode(t *testing.T) {
	col := newCollector(t, "C16", "decoding: generated option values for every key of the documentation, rendered by the harness's own YAML and JSON writers (1-3 groups, documents smaller and larger than the 4096-byte sniff buffer), decoded by the real UnmarshalNodeGroupOptions; oracle: YAML-decoded = JSON-decoded = source, field by field, and every documented key changes the decoded value; non-trivial = >= 2 groups with all keys, or a document larger than the sniff buffer; distinct by (groups, size class, style, values)")
	top, awsKeys, err := documentedKeys()
	if err != nil {
		t.Fatalf("cannot read the documented keys: %v", err)
	}
	known := map[string]docKey{}
	for _, k := range knownKeys() {
		pfx := ""
		if k.aws {
			pfx = "aws."
		}
		known[pfx+k.key] = k
	}
	// every documented key must be honoured
	var all []string
	for _, k := range top {
		all = append(all, k)
	}
	for _, k := range awsKeys {
		all = append(all, "aws."+k)
	}
	for _, k := range all {
		col.Eval(1)
		if _, ok := known[k]; ok {
			continue
		}
		// a documented key the harness has no field mapping for: does it change anything?
		sig := "C16:documented-key-ignored:" + k
		with := fmt.Sprintf("node_groups:\n  - name: \"a\"\n    %s: \"10m\"\n", k)
		without := "node_groups:\n  - name: \"a\"\n"
		a, e1 := controller.UnmarshalNodeGroupOptions(strings.NewReader(with))
		b, e2 := controller.UnmarshalNodeGroupOptions(strings.NewReader(without))
		if e1 == nil && e2 == nil && reflect.DeepEqual(a, b) {
			if isKnown(sig) {
				col.KnownFinding(sig)
				continue
			}
			t.Fatalf("VIOLATION %s\ndocumented key %q is silently ignored: a file with and without it decodes to the same options", sig, k)
		}
	}
	for k := range known {
		found := false
		for _, d := range all {
			if d == k {
				found = true
			}
		}
		if !found {
			col.Class("undocumented-key:" + k)
		}
	}
	keys := knownKeys()
	rapid.Check(t, func(rt *rapid.T) {
		col.Case()
		ng := rapid.IntRange(1, 3).Draw(rt, "groups")
		var groups []groupSrc
		allKeys := true
		for g := 0; g < ng; g++ {
			src := groupSrc{}
			awsM := map[string]any{}
			for _, k := range keys {
				if rapid.IntRange(0, 9).Draw(rt, "omit") == 0 {
					allKeys = false
					continue
				}
				v := k.gen(rt)
				if k.aws {
					awsM[k.key] = v
				} else {
					src[k.key] = v
				}
			}
			if len(awsM) > 0 {
				src["aws"] = awsM
			}
			groups = append(groups, src)
		}
		pad := rapid.SampledFrom([]int{0, 0, 4000, 4096, 5000, 66000, 140000}).Draw(rt, "pad")
		style := rapid.IntRange(0, 2).Draw(rt, "yamlStyle")
		y := renderYAML(groups, style, pad)
		escapes := rapid.IntRange(0, 2).Draw(rt, "jsonEscapes")
		js := renderJSON(groups, rapid.Bool().Draw(rt, "indent"), pad, escapes)
		col.Eval(1)
		fromY, errY := controller.UnmarshalNodeGroupOptions(strings.NewReader(y))
		fromJ, errJ := controller.UnmarshalNodeGroupOptions(bytes.NewReader([]byte(js)))
		if errY == nil && errJ != nil && escapes > 0 && pad >= 4096 && strings.Contains(errJ.Error(), "yaml:") && strings.Contains(js, "\\") {
			// JSON that starts behind 4096 or more bytes of whitespace is not recognised as JSON and goes
			// through the YAML reader, which rejects escapes only JSON knows
			sig := "C16:json-escapes-refused-behind-leading-whitespace"
			if !isKnown(sig) {
				fail(rt, dumpPath(), sig, "json err=%v\n--- json (after %d bytes of whitespace)\n%s", errJ, pad, strings.TrimSpace(js))
			}
			col.KnownFinding(sig)
			return
		}
		if errY != nil || errJ != nil {
			fail(rt, dumpPath(), "C16:decode-error", "yaml err=%v json err=%v\n--- yaml\n%s\n--- json\n%s", errY, errJ, y, js)
		}
		if !reflect.DeepEqual(fromY, fromJ) {
			fail(rt, dumpPath(), "C16:yaml-json-differ", "yaml: %+v\njson: %+v\n--- yaml\n%s\n--- json\n%s", fromY, fromJ, y, js)
		}
		if len(fromY) != ng {
			fail(rt, dumpPath(), "C16:group-count", "decoded %d groups, wrote %d\n%s", len(fromY), ng, y)
		}
		for g, src := range groups {
			for _, k := range keys {
				var want any
				var present bool
				if k.aws {
					if am, ok := src["aws"].(map[string]any); ok {
						want, present = am[k.key]
					}
				} else {
					want, present = src[k.key]
				}
				got := k.get(fromY[g])
				if !present {
					want = reflect.Zero(reflect.TypeOf(got)).Interface()
				}
				if !reflect.DeepEqual(got, want) && !(reflect.ValueOf(got).Kind() == reflect.Slice && reflect.ValueOf(got).Len() == 0 && !present) {
					fail(rt, dumpPath(), "C16:key-not-honoured:"+k.key, "group %d key %s: wrote %v (present=%v), decoded %v\n--- yaml\n%s", g, k.key, want, present, got, y)
				}
			}
		}
		// several documents in one file (a header document, or the groups split over documents): whatever
		// the decoder makes of it, every group it returns is one that was written - field values are
		// never carried over from another group or document
		if ng >= 2 && rapid.IntRange(0, 3).Draw(rt, "multiDoc") == 0 {
			cut := rapid.IntRange(1, ng-1).Draw(rt, "cut")
			first, second := groups[:cut], groups[cut:]
			if rapid.Bool().Draw(rt, "secondFirst") {
				first, second = second, first
			}
			var doc string
			if rapid.Bool().Draw(rt, "yamlDocs") {
				doc = renderYAML(first, 0, 0) + "---\n" + renderYAML(second, 0, 0)
				if rapid.Bool().Draw(rt, "header") {
					doc = "# managed by deploy tooling\n---\n" + doc
				}
			} else {
				doc = renderJSON(first, false, 0) + "\n" + renderJSON(second, true, 0)
			}
			col.Eval(1)
			if multi, err := controller.UnmarshalNodeGroupOptions(strings.NewReader(doc)); err == nil {
				for _, got := range multi {
					written := false
					for _, one := range fromJ {
						if reflect.DeepEqual(got, one) {
							written = true
						}
					}
					if !written {
						fail(rt, dumpPath(), "C16:group-mixes-documents", "decoded group %+v equals none of the groups written\n--- file\n%s", got, doc)
					}
				}
				col.Nontrivial(fmt.Sprintf("multidoc|%d|%d|%x", ng, cut, hashStr(doc)))
			}
		}
		if (ng >= 2 && allKeys) || len(y) > 4096 {
			col.Nontrivial(fmt.Sprintf("decode|%d|%v|%d|%d|%x", ng, len(y) > 4096, style, pad, hashStr(y)))
			col.Sample(map[string]any{"groups": ng, "yaml_bytes": len(y), "json_bytes": len(js), "yaml_head": strings.Split(y, "\n")[:minI(12, strings.Count(y, "\n"))]})
		}
	})
}

func hashStr(s string) uint32 {
	var h uint32 = 2166136261
	for i := 0; i < len(s); i++ {
		h = (h ^ uint32(s[i])) * 16777619
	}
	return h
}

// FuzzC16Decode: arbitrary bytes never make the decoder panic, and whatever decodes as
// YAML decodes to the same options after re-encoding as JSON.
func FuzzC16Decode(f *testing.F) {
	f.Add([]byte("node_groups:\n  - name: \"shared\"\n    min_nodes: 1\n    aws:\n        lifecycle: spot\n"))
	f.Add([]byte(`{"node_groups":[{"name":"a","max_nodes":3,"aws":{"instance_type_overrides":["a","b"]}}]}`))
	f.Add([]byte("node_groups: [{name: x, dry_mode: yes, taint_effect: NoExecute}]"))
	f.Add([]byte("node_groups:\n- {}\n- name: 1e3\n  min_nodes: 0x10\n"))
	f.Add([]byte(strings.Repeat(" ", 4097) + `{"node_groups":[{"name":"late"}]}`))
	f.Add([]byte("\xff\xfe{}"))
	f.Add([]byte(`{"node_groups":[{"Aws":{"instAnCe_tYpe_overrides":[]}}]}`)) // case-insensitive keys, empty list
	f.Fuzz(func(t *testing.T, data []byte) {
		opts, err := controller.UnmarshalNodeGroupOptions(bytes.NewReader(data))
		if err != nil {
			return
		}
		for _, o := range opts {
			_ = controller.ValidateNodeGroup(o)
		}
		b, err := json.Marshal(map[string]any{"node_groups": opts})
		if err != nil {
			t.Fatalf("VIOLATION C16:reencode: %v", err)
		}
		again, err := controller.UnmarshalNodeGroupOptions(bytes.NewReader(b))
		if err != nil {
			t.Fatalf("VIOLATION C16:json-roundtrip-error: %v\n%s", err, b)
		}
		if len(opts) == 0 && len(again) == 0 {
			return
		}
		for i := range opts { // an empty list and an absent list are the same configuration
			if len(opts[i].AWS.InstanceTypeOverrides) == 0 {
				opts[i].AWS.InstanceTypeOverrides = nil
			}
		}
		for i := range again {
			if len(again[i].AWS.InstanceTypeOverrides) == 0 {
				again[i].AWS.InstanceTypeOverrides = nil
			}
		}
		if !reflect.DeepEqual(opts, again) {
			t.Fatalf("VIOLATION C16:json-roundtrip-differs\nfirst:  %+v\nsecond: %+v", opts, again)
		}
	})
}
