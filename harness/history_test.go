//go:build verif

package verifharness

import (
	"fmt"
	"testing"

	v1 "k8s.io/api/core/v1"

	"verifharness/ref"
	"verifharness/sim"
	"verifharness/world"
)

func b2s(b bool) string {
	if b {
		return "1"
	}
	return "0"
}

// ---------------------------------------------------------------- C01

func TestC01(t *testing.T) {
	p := &world.Profile{Name: "reaper", MinGroups: 1, MaxGroups: 2, Fleet: 0, Auto: 1, Default: 1, MaxInit: 8, SmallGraces: true, Steps: 30, Stale: true,
		Weights: with(baseWeights(), "advance", 9, "taintExt", 5, "clearNode", 3, "fault", 1, "annotate", 1, "gcNodes", 1)}
	col := newCollector(t, "C01", "history of environment actions and scans over the real RunOnce; non-trivial = a scan that removed >=1 node while leaving >=1 tainted node in place, or that saw a tainted node within 1s of a grace boundary; distinct by (age class, empty, removed, restarted, taint value class)")
	historyCheck(t, &historyOpts{prop: "C01", profile: p, col: col, classify: func(w *world.World, rec *world.ScanRecord) []string {
		var keys []string
		for _, gr := range rec.Groups {
			if !gr.Processed || gr.Dry {
				continue
			}
			o := &w.Cfg.Groups[gr.G].Opts
			removed := map[string]bool{}
			for _, n := range gr.Deleted {
				removed[n] = true
			}
			for _, id := range gr.TermOK {
				if n := rec.NodeForInstance(id); n != nil {
					removed[n.Name] = true
				}
			}
			for _, n := range append(append([]*v1.Node{}, gr.GV.Tainted...), gr.GV.Force...) {
				cls := "unreadable"
				if ts, ok := ref.TaintTime(n); ok {
					age := gr.Start.Sub(ts)
					soft, hard := o.SoftDeleteGracePeriodDuration(), o.HardDeleteGracePeriodDuration()
					switch {
					case age < 0:
						cls = "future"
					case age <= soft-1e9:
						cls = "young"
					case age <= soft:
						cls = "soft-edge-"
					case age <= soft+1e9:
						cls = "soft-edge+"
					case age <= hard-1e9:
						cls = "between"
					case age <= hard:
						cls = "hard-edge-"
					case age <= hard+1e9:
						cls = "hard-edge+"
					default:
						cls = "old"
					}
				}
				_, force := ref.HasTaint(n, ref.ForceTaintKey)
				empty := len(gr.GV.PodsOn(n.Name)) == 0
				left := len(gr.GV.Tainted)+len(gr.GV.Force) > len(removed)
				if (removed[n.Name] && left) || cls == "soft-edge-" || cls == "soft-edge+" || cls == "hard-edge-" || cls == "hard-edge+" {
					keys = append(keys, fmt.Sprintf("reap|%s|empty=%v|force=%v|removed=%v|restart=%v|nodelete=%v", cls, empty, force, removed[n.Name], rec.Restarted, ref.NoDelete(n)))
				}
			}
		}
		return keys
	}})
}

// ---------------------------------------------------------------- C02

func TestC02(t *testing.T) {
	p := &world.Profile{Name: "lock", MinGroups: 1, MaxGroups: 2, Fleet: 1, Auto: 1, MaxInit: 6, SmallGraces: true, Steps: 30,
		Weights: with(baseWeights(), "advance", 10, "scan", 14, "targetUtil", 10, "cordon", 3, "taintExt", 4, "restart", 1, "fleetPlan", 1, "register", 3, "reconcile", 2)}
	col := newCollector(t, "C02", "history check; non-trivial = a scan inside a cool-down window for which the unlocked decision would have been an action, or a scan within 1s of the end of a cool-down; distinct by (offset class, would-be action, fleet)")
	historyCheck(t, &historyOpts{prop: "C02", profile: p, col: col, classify: func(w *world.World, rec *world.ScanRecord) []string {
		var keys []string
		for _, gr := range rec.Groups {
			if !gr.Processed || gr.Dry || gr.LockT0.IsZero() || rec.Restarted {
				continue
			}
			cd := w.Cfg.Groups[gr.G].Opts.ScaleUpCoolDownPeriodDuration()
			off := gr.Start.Sub(gr.LockT0)
			cls := ""
			switch {
			case off < cd-1e9:
				cls = "inside"
			case off < cd:
				cls = "edge-"
			case off == cd:
				cls = "edge="
			case off <= cd+1e9:
				cls = "edge+"
			default:
				continue
			}
			// what would an unlocked controller do?
			saved := gr.Locked
			gr.Locked = false
			ex := w.Expectation(rec, gr)
			gr.Locked = saved
			would := ex.Kind
			if ex.Kind == "band" {
				would = fmt.Sprint(ex.Bands)
			}
			if cls == "inside" && ex.Kind == "band" && ex.Bands == [4]bool{false, false, true, false} && len(gr.GV.Tainted)+len(gr.GV.Force) == 0 {
				continue // nothing to suppress
			}
			keys = append(keys, fmt.Sprintf("lock|%s|%s|fleet=%v", cls, would, w.Cfg.IsFleet(gr.G)))
		}
		return keys
	}})
}

// ---------------------------------------------------------------- C03

func TestC03(t *testing.T) {
	p := &world.Profile{Name: "mintaint", MinGroups: 1, MaxGroups: 2, Auto: 1, MaxInit: 10, SmallGraces: true, Steps: 30, Stale: true,
		Weights: with(baseWeights(), "asgEdit", 2, "cordon", 3, "taintExt", 3, "targetUtil", 10)}
	col := newCollector(t, "C03", "history check; non-trivial = a scan in which the clamp binds (rate > untainted - min), or untainted < min (recovery), or min_nodes is auto-discovered; distinct by (clamp, recovery, auto, tainted-present, cordoned-present, k)")
	historyCheck(t, &historyOpts{prop: "C03", profile: p, col: col, classify: func(w *world.World, rec *world.ScanRecord) []string {
		var keys []string
		for _, gr := range rec.Groups {
			if !gr.Processed || gr.Dry {
				continue
			}
			o := &w.Cfg.Groups[gr.G].Opts
			U, m := len(gr.GV.Untainted), gr.EffMin
			auto := o.MinNodes == 0 && o.MaxNodes == 0
			k := len(gr.TaintedNow())
			clamp := k > 0 && (o.FastNodeRemovalRate > U-m)
			rec0 := U < m && len(gr.GV.Nodes) >= m && len(gr.GV.Nodes) <= gr.EffMax
			if clamp || rec0 || (auto && k > 0) {
				keys = append(keys, fmt.Sprintf("min|clamp=%v|recover=%v|auto=%v|tainted=%v|cordoned=%v|k=%d|slack=%d", clamp, rec0, auto, len(gr.GV.Tainted) > 0, len(gr.GV.Cordoned) > 0, k, U-m))
			}
		}
		return keys
	}})
}

// ---------------------------------------------------------------- C04

func TestC04(t *testing.T) {
	p := &world.Profile{Name: "maxclamp", MinGroups: 1, MaxGroups: 2, Fleet: 1, Auto: 1, MaxInit: 8, SmallGraces: true, Steps: 25,
		Weights: with(baseWeights(), "targetUtil", 12, "asgEdit", 1, "fleetPlan", 1)}
	col := newCollector(t, "C04", "history check; non-trivial = a scan with a cloud increase request (or a refused one) where max_nodes differs from the cloud maximum or the need exceeds the headroom; distinct by (relation of max_nodes to cloud max, clamped, fleet, recovery, tainted-present)")
	historyCheck(t, &historyOpts{prop: "C04", profile: p, col: col, classify: func(w *world.World, rec *world.ScanRecord) []string {
		var keys []string
		for _, gr := range rec.Groups {
			if !gr.Processed || gr.Dry {
				continue
			}
			ex := w.Expectation(rec, gr)
			up := ex.Kind == "recover" || (ex.Kind == "band" && ex.Bands[ref.BandUp])
			if !up {
				continue
			}
			asgMax := rec.ASGs[w.CloudName(gr.G)].Max
			rel := "eq"
			if int64(gr.EffMax) < asgMax {
				rel = "below"
			} else if int64(gr.EffMax) > asgMax {
				rel = "above"
			}
			B := w.Bound(rec, gr)
			cur := rec.ASGs[w.CloudName(gr.G)].Desired
			head := B - cur
			clamped := false
			for _, e := range gr.Increase {
				if e.Kind == sim.ASetDesired && e.Value >= B {
					clamped = true
				}
			}
			if rel != "eq" || clamped || head <= 0 {
				keys = append(keys, fmt.Sprintf("max|%s|clamped=%v|head=%d|fleet=%v|kind=%s|tainted=%v|req=%d", rel, clamped, head, w.Cfg.IsFleet(gr.G), ex.Kind, len(gr.GV.Tainted) > 0, len(gr.Increase)))
			}
		}
		return keys
	}})
}
