//go:build verif

package verifharness

import (
	"fmt"
	"strings"
	"testing"

	v1 "k8s.io/api/core/v1"

	"verifharness/ref"
	"verifharness/sim"
	"verifharness/world"
)

func b2s(b bool) string {
	if b {
		return "1"
	}
	return "0"
}

// ---------------------------------------------------------------- C01

func TestC01(t *testing.T) {
	p := &world.Profile{Name: "reaper", Linger: true, DupTaints: true, MinGroups: 1, MaxGroups: 2, Fleet: 0, Auto: 1, Default: 1, MaxInit: 8, SmallGraces: true, Steps: 30, Stale: true,
		Weights: with(baseWeights(), "advance", 9, "taintExt", 5, "clearNode", 3, "fault", 1, "annotate", 1, "gcNodes", 1, "forceBusy", 3, "schedule", 3, "launch", 3, "lateBind", 3, "staleWindow", 2, "gracefulDelete", 4, "raceOnWrite", 3, "oddTaintAtFloor", 1, "leftoverNode", 3, "overMaxLateBind", 3)}
	col := newCollector(t, "C01", "history of environment actions and scans over the real RunOnce; non-trivial = a scan that removed >=1 node while leaving >=1 tainted node in place, or that saw a tainted node within 1s of a grace boundary; distinct by (age class, empty, removed, restarted, taint value class)")
	historyCheck(t, &historyOpts{prop: "C01", profile: p, col: col, classify: func(w *world.World, rec *world.ScanRecord) []string {
		var keys []string
		for _, gr := range rec.Groups {
			if !gr.Processed || gr.Dry {
				continue
			}
			o := &w.Cfg.Groups[gr.G].Opts
			removed := map[string]bool{}
			for _, n := range gr.Deleted {
				removed[n] = true
			}
			for _, id := range gr.TermOK {
				if n := rec.NodeForInstance(id); n != nil {
					removed[n.Name] = true
				}
			}
			for _, n := range append(append([]*v1.Node{}, gr.GV.Tainted...), gr.GV.Force...) {
				cls := "unreadable"
				if ts, ok := ref.TaintTime(n); ok {
					age := gr.Start.Sub(ts)
					soft, hard := world.Dur(o.SoftDeleteGracePeriod), world.Dur(o.HardDeleteGracePeriod)
					switch {
					case age < 0:
						cls = "future"
					case age <= soft-1e9:
						cls = "young"
					case age <= soft:
						cls = "soft-edge-"
					case age <= soft+1e9:
						cls = "soft-edge+"
					case age <= hard-1e9:
						cls = "between"
					case age <= hard:
						cls = "hard-edge-"
					case age <= hard+1e9:
						cls = "hard-edge+"
					default:
						cls = "old"
					}
				}
				_, force := ref.HasTaint(n, ref.ForceTaintKey)
				empty := len(gr.GV.PodsOn(n.Name)) == 0
				left := len(gr.GV.Tainted)+len(gr.GV.Force) > len(removed)
				if (removed[n.Name] && left) || cls == "soft-edge-" || cls == "soft-edge+" || cls == "hard-edge-" || cls == "hard-edge+" {
					keys = append(keys, fmt.Sprintf("reap|%s|empty=%v|force=%v|removed=%v|restart=%v|nodelete=%v", cls, empty, force, removed[n.Name], rec.Restarted, ref.NoDelete(n)))
				}
			}
		}
		return keys
	}})
}

// ---------------------------------------------------------------- C02

func TestC02(t *testing.T) {
	p := &world.Profile{Name: "lock", MinGroups: 1, MaxGroups: 2, Fleet: 1, Auto: 1, MaxInit: 6, SmallGraces: true, Steps: 30,
		Weights: with(baseWeights(), "advance", 10, "scan", 14, "targetUtil", 10, "cordon", 3, "taintExt", 4, "restart", 1, "fleetPlan", 1, "register", 3, "reconcile", 2, "asgEdit", 2, "drainAndForce", 2, "clearPods", 2, "zeroOut", 1, "idleBlip", 2, "refreshFails", 3, "resizeThenDescribeFails", 3, "untaintFailsThenBusy", 3)}
	col := newCollector(t, "C02", "history check; non-trivial = a scan inside a cool-down window for which the unlocked decision would have been an action, or a scan within 1s of the end of a cool-down; distinct by (offset class, would-be action, fleet)")
	historyCheck(t, &historyOpts{prop: "C02", profile: p, col: col, classify: func(w *world.World, rec *world.ScanRecord) []string {
		var keys []string
		for _, gr := range rec.Groups {
			if !gr.Processed || gr.Dry || gr.LockT0.IsZero() || rec.Restarted {
				continue
			}
			cd := world.Dur(w.Cfg.Groups[gr.G].Opts.ScaleUpCoolDownPeriod)
			off := gr.Start.Sub(gr.LockT0)
			cls := ""
			switch {
			case off < cd-1e9:
				cls = "inside"
			case off < cd:
				cls = "edge-"
			case off == cd:
				cls = "edge="
			case off <= cd+1e9:
				cls = "edge+"
			default:
				continue
			}
			// what would an unlocked controller do?
			saved := gr.Locked
			gr.Locked = false
			ex := w.Expectation(rec, gr)
			gr.Locked = saved
			would := ex.Kind
			if ex.Kind == "band" {
				would = fmt.Sprint(ex.Bands)
			}
			if cls == "inside" && ex.Kind == "band" && ex.Bands == [4]bool{false, false, true, false} && len(gr.GV.Tainted)+len(gr.GV.Force) == 0 {
				continue // nothing to suppress
			}
			keys = append(keys, fmt.Sprintf("lock|%s|%s|fleet=%v", cls, would, w.Cfg.IsFleet(gr.G)))
		}
		return keys
	}})
}

// ---------------------------------------------------------------- C03

func TestC03(t *testing.T) {
	p := &world.Profile{Name: "mintaint", MinGroups: 1, MaxGroups: 2, Auto: 2, MaxInit: 10, SmallGraces: true, Steps: 30, Stale: true,
		Weights: with(baseWeights(), "asgEdit", 2, "cordon", 3, "taintExt", 3, "targetUtil", 10, "pinAsg", 3, "refreshFails", 2, "belowMinWithCordoned", 3, "oddTaintAtFloor", 3, "goneTaintedBelowMin", 3, "minRaisedWhileRefreshFails", 3)}
	col := newCollector(t, "C03", "history check; non-trivial = a scan in which the clamp binds (rate > untainted - min), or untainted < min (recovery), or min_nodes is auto-discovered; distinct by (clamp, recovery, auto, tainted-present, cordoned-present, k)")
	historyCheck(t, &historyOpts{prop: "C03", profile: p, col: col, classify: func(w *world.World, rec *world.ScanRecord) []string {
		var keys []string
		for _, gr := range rec.Groups {
			if !gr.Processed || gr.Dry {
				continue
			}
			o := &w.Cfg.Groups[gr.G].Opts
			U, m := len(gr.GV.Untainted), gr.EffMin
			auto := o.MinNodes == 0 && o.MaxNodes == 0
			k := len(gr.TaintedNow())
			clamp := k > 0 && (o.FastNodeRemovalRate > U-m)
			rec0 := U < m && len(gr.GV.Nodes) >= m && len(gr.GV.Nodes) <= gr.EffMax
			if clamp || rec0 || (auto && k > 0) {
				keys = append(keys, fmt.Sprintf("min|clamp=%v|recover=%v|auto=%v|tainted=%v|cordoned=%v|k=%d|slack=%d", clamp, rec0, auto, len(gr.GV.Tainted) > 0, len(gr.GV.Cordoned) > 0, k, U-m))
			}
		}
		return keys
	}})
}

// ---------------------------------------------------------------- C04

func TestC04(t *testing.T) {
	p := &world.Profile{Name: "maxclamp", Linger: true, HugeMax: true, MinGroups: 1, MaxGroups: 2, Fleet: 1, Auto: 1, MaxInit: 8, SmallGraces: true, Steps: 25,
		FaultFocus: "cloud",
		Weights:    with(baseWeights(), "targetUtil", 12, "asgEdit", 2, "fleetPlan", 1, "fault", 3, "drainAndForce", 2, "storm", 3, "asgDeleting", 1, "refreshFails", 2, "parkedAsg", 2, "bumpAfterRefresh", 3)}
	col := newCollector(t, "C04", "history check; non-trivial = a scan with a cloud increase request (or a refused one) where max_nodes differs from the cloud maximum or the need exceeds the headroom; distinct by (relation of max_nodes to cloud max, clamped, fleet, recovery, tainted-present)")
	historyCheck(t, &historyOpts{prop: "C04", profile: p, col: col, classify: func(w *world.World, rec *world.ScanRecord) []string {
		var keys []string
		for _, gr := range rec.Groups {
			if !gr.Processed || gr.Dry {
				continue
			}
			ex := w.Expectation(rec, gr)
			up := ex.Kind == "recover" || (ex.Kind == "band" && ex.Bands[ref.BandUp])
			if !up {
				continue
			}
			asgMax := rec.ASGs[w.CloudName(gr.G)].Max
			rel := "eq"
			if int64(gr.EffMax) < asgMax {
				rel = "below"
			} else if int64(gr.EffMax) > asgMax {
				rel = "above"
			}
			B := w.Bound(rec, gr)
			cur := rec.ASGs[w.CloudName(gr.G)].Desired
			head := B - cur
			clamped := false
			for _, e := range gr.Increase {
				if e.Kind == sim.ASetDesired && e.Value >= B {
					clamped = true
				}
			}
			if rel != "eq" || clamped || head <= 0 {
				keys = append(keys, fmt.Sprintf("max|%s|clamped=%v|head=%d|fleet=%v|kind=%s|tainted=%v|req=%d", rel, clamped, head, w.Cfg.IsFleet(gr.G), ex.Kind, len(gr.GV.Tainted) > 0, len(gr.Increase)))
			}
		}
		return keys
	}})
}

// ---------------------------------------------------------------- C05 (end-to-end half)

func TestC05History(t *testing.T) {
	p := &world.Profile{Name: "scaleup", FaultFocus: "node-writes", MinGroups: 1, MaxGroups: 1, Fleet: 1, Auto: 1, MaxInit: 10, SmallGraces: true, Steps: 20,
		Weights: with(baseWeights(), "targetUtil", 14, "taintExt", 5, "cordon", 1, "restart", 2, "fleetPlan", 1, "drainAndForce", 1, "killNode", 2, "storm", 2, "asgEdit", 2, "zeroOut", 2, "sizeSeenOutOfBounds", 2, "gracefulDelete", 3, "refreshFails", 3, "replacePod", 3, "replaceBetweenScans", 3, "sizeChangesThenZero", 3, "fault", 3, "raceOnWrite", 2, "cordonedTaintedThenBusy", 3, "staleWindow", 3)}
	col := newCollector(t, "C05", "end-to-end: scans in the scale-up band with equal-size nodes; nodes brought into service = untaints + (requested target - real desired); non-trivial = strict scale-up band with need >= 1; distinct by (need, reused, requested, clamped, bound resource)")
	historyCheck(t, &historyOpts{prop: "C05", profile: p, col: col, classify: func(w *world.World, rec *world.ScanRecord) []string {
		var keys []string
		for _, gr := range rec.Groups {
			ex := w.Expectation(rec, gr)
			if ex.Kind != "band" || ex.Bands != [4]bool{false, false, false, true} || ex.Need < 0 || rec.Faulty() {
				continue
			}
			keys = append(keys, fmt.Sprintf("e2e|need=%d|untaint=%d|req=%d|tainted=%d|fleet=%v", ex.Need, len(gr.UntaintedNow()), len(gr.Increase), len(gr.GV.Tainted), w.Cfg.IsFleet(gr.G)))
		}
		return keys
	}})
}

// ---------------------------------------------------------------- C06

func TestC06(t *testing.T) {
	p := &world.Profile{Name: "bands", MinGroups: 1, MaxGroups: 2, Fleet: 1, Auto: 1, Default: 1, Starve: 1, MaxAge: 1, MaxInit: 10, SmallGraces: true, Steps: 25,
		FaultFocus: "cloud",
		Weights:    with(baseWeights(), "targetUtil", 16, "scan", 12, "taintExt", 2, "cordon", 1, "restart", 1, "schedule", 3, "asgEdit", 2, "fault", 2, "fleetPlan", 1, "resizeNode", 2, "launch", 3, "starveAfterScaleUp", 4, "latency", 2, "gracefulDelete", 2, "unevenStarve", 4, "oldestWriteFails", 3, "goneUntaintedThenIdle", 3)}
	col := newCollector(t, "C06", "history check; every unlocked, in-bounds, fault-free scan is judged against the exact-rational band; non-trivial = band with a non-empty expected action or an edge class; distinct by (band set, edge, clamp binds, tainted present, trigger)")
	historyCheck(t, &historyOpts{prop: "C06", profile: p, col: col, classify: func(w *world.World, rec *world.ScanRecord) []string {
		var keys []string
		for _, gr := range rec.Groups {
			ex := w.Expectation(rec, gr)
			if ex.Kind != "band" || rec.Faulty() || len(gr.Failed) > 0 {
				continue
			}
			o := &w.Cfg.Groups[gr.G].Opts
			U, m := len(gr.GV.Untainted), gr.EffMin
			clamp := o.FastNodeRemovalRate > U-m
			nonEmpty := ex.Bands[ref.BandUp] || (ex.Bands[ref.BandFast] && minI(o.FastNodeRemovalRate, U-m) > 0) || (ex.Bands[ref.BandSlow] && minI(o.SlowNodeRemovalRate, U-m) > 0)
			if ex.Starve {
				col.Class("trigger:starve")
			}
			if ex.MaxAge {
				col.Class("trigger:max_node_age")
			}
			if ex.Edge != "" {
				col.Class("edge:" + ex.Edge)
			}
			if nonEmpty || ex.Edge != "" || ex.Starve || ex.MaxAge {
				keys = append(keys, fmt.Sprintf("band|%v|%s|clamp=%v|tainted=%v|starve=%v|maxage=%v|U0=%v", ex.Bands, ex.Edge, clamp, len(gr.GV.Tainted) > 0, ex.Starve, ex.MaxAge, U == 0))
			}
		}
		return keys
	}})
}

func minI(a, b int) int {
	if a < b {
		return a
	}
	return b
}

// ---------------------------------------------------------------- C07

func TestC07(t *testing.T) {
	p := &world.Profile{Name: "reuse", Linger: true, MinGroups: 1, MaxGroups: 2, Fleet: 1, Auto: 1, MaxInit: 10, SmallGraces: true, Steps: 25, Stale: true,
		FaultFocus: "node-writes",
		Weights:    with(baseWeights(), "targetUtil", 12, "taintExt", 8, "fault", 4, "asgEdit", 1, "cordon", 2, "clearNode", 2, "drainAndForce", 2, "setCreated", 1, "storm", 3, "staleWindow", 3, "raceOnWrite", 3, "refreshFails", 2, "cordonedTaintedThenBusy", 2)}
	col := newCollector(t, "C07", "history check; scans that untaint or request capacity; non-trivial = 0 < tainted pool < need (partial reuse), creation-time ties in the pool, a failed untaint, or force removal earlier in the same scan; distinct by those flags and pool/need sizes")
	historyCheck(t, &historyOpts{prop: "C07", profile: p, col: col, classify: func(w *world.World, rec *world.ScanRecord) []string {
		var keys []string
		for _, gr := range rec.Groups {
			if !gr.Processed || gr.Dry || (len(gr.UntaintedNow()) == 0 && len(gr.Increase) == 0) {
				continue
			}
			ex := w.Expectation(rec, gr)
			need := int64(ex.N)
			if ex.Kind == "band" {
				need = ex.Need
			}
			pool := int64(len(gr.GV.Tainted))
			ties := false
			seen := map[int64]bool{}
			for _, n := range gr.GV.Tainted {
				ts := n.CreationTimestamp.Unix()
				if seen[ts] {
					ties = true
				}
				seen[ts] = true
			}
			partial := pool > 0 && pool < need
			failed := len(gr.Failed) > 0
			forceFirst := len(gr.TermOK) > 0
			if partial || ties || failed || forceFirst {
				keys = append(keys, fmt.Sprintf("reuse|partial=%v|ties=%v|failed=%v|force=%v|pool=%d|need=%d|kind=%s", partial, ties, failed, forceFirst, pool, need, ex.Kind))
			}
		}
		return keys
	}})
}

// ---------------------------------------------------------------- C08

func TestC08(t *testing.T) {
	p := &world.Profile{Name: "oldest", MinGroups: 1, MaxGroups: 1, Auto: 1, MaxAge: 1, MaxInit: 14, SmallGraces: true, Steps: 12, Stale: true, MaxBelowASG: 1,
		FaultFocus: "node-writes",
		Weights:    map[string]int{"scan": 10, "targetUtil": 8, "fault": 3, "launch": 2, "taintExt": 1, "cordon": 1, "advance": 1, "removeTaint": 2, "setCreated": 3, "annotate": 2, "dupNode": 1, "notReady": 4, "terminating": 2, "heartbeat": 5, "foreignTaint": 4, "replacedAfterRefusedWrites": 2}}
	col := newCollector(t, "C08", "history check; scale-down scans; non-trivial = 0 < tainted < untainted with >= 2 distinct creation times and a view order that is not already oldest-first; also ties and failed writes; distinct by (k, U, distinct times, sorted, ties, failed, stale)")
	historyCheck(t, &historyOpts{prop: "C08", profile: p, col: col, classify: func(w *world.World, rec *world.ScanRecord) []string {
		var keys []string
		for _, gr := range rec.Groups {
			k, U := len(gr.TaintedNow()), len(gr.GV.Untainted)
			if !gr.Processed || gr.Dry || k == 0 || k >= U {
				continue
			}
			times := map[int64]bool{}
			sorted := true
			for i, n := range gr.GV.Untainted {
				times[n.CreationTimestamp.Unix()] = true
				if i > 0 && n.CreationTimestamp.Time.Before(gr.GV.Untainted[i-1].CreationTimestamp.Time) {
					sorted = false
				}
			}
			if len(times) >= 2 && (!sorted || len(times) < U || len(gr.Failed) > 0) {
				keys = append(keys, fmt.Sprintf("oldest|k=%d|U=%d|times=%d|sorted=%v|failed=%d|noop=%d", k, U, len(times), sorted, len(gr.Failed), len(gr.TaintNoop)))
			}
		}
		return keys
	}})
}

// actsOn reports what escalator would be tempted to do with node n if it ignored one protection.
func temptation(w *world.World, rec *world.ScanRecord, gr *world.GroupRec, n *v1.Node) string {
	o := &w.Cfg.Groups[gr.G].Opts
	if _, ok := ref.HasTaint(n, ref.ForceTaintKey); ok && len(gr.GV.PodsOn(n.Name)) == 0 {
		return "force-empty"
	}
	if ts, ok := ref.TaintTime(n); ok {
		age := gr.Start.Sub(ts)
		if age > world.Dur(o.HardDeleteGracePeriod) {
			return "hard-expired"
		}
		if age > world.Dur(o.SoftDeleteGracePeriod) && len(gr.GV.PodsOn(n.Name)) == 0 {
			return "soft-expired-empty"
		}
		return "tainted"
	}
	if _, ok := ref.HasTaint(n, ref.TaintKey); ok {
		return "tainted-unreadable"
	}
	return "untainted"
}

// ---------------------------------------------------------------- C09

func TestC09(t *testing.T) {
	p := &world.Profile{Name: "cordon", BulkWhat: []string{"force", "force+drain", "cordon", "taint+drain"}, FaultFocus: "node-writes", MinGroups: 1, MaxGroups: 2, Fleet: 0, Auto: 1, MaxInit: 14, SmallGraces: true, Steps: 30, Stale: true,
		Weights: with(baseWeights(), "cordon", 8, "taintExt", 5, "advance", 8, "annotate", 1, "clearNode", 2, "fault", 2, "staleWindow", 2, "leftoverNode", 2, "bulk", 3, "heartbeat", 2, "raceOnWrite", 3, "belowMinWithCordoned", 2, "cordonedTaintedThenBusy", 3, "onlyCordonedLeft", 3)}
	col := newCollector(t, "C09", "history check; non-trivial = an acting (unlocked, in-bounds) scan that sees a cordoned node which would otherwise have been acted on: grace-expired, force-tainted and empty, tainted under a scale-up, or oldest untainted-looking under a scale-down; distinct by (temptation, action of the scan)")
	historyCheck(t, &historyOpts{prop: "C09", profile: p, col: col, extra: cordonedNotCounted, classify: func(w *world.World, rec *world.ScanRecord) []string {
		var keys []string
		for _, gr := range rec.Groups {
			if !gr.Processed || gr.Dry || len(gr.GV.Cordoned) == 0 {
				continue
			}
			ex := w.Expectation(rec, gr)
			if ex.Kind != "band" && ex.Kind != "recover" {
				continue
			}
			act := fmt.Sprintf("t%du%dr%d", minI(len(gr.TaintedNow()), 1), minI(len(gr.UntaintedNow()), 1), minI(len(gr.TermOK), 1))
			for _, n := range gr.GV.Cordoned {
				tmp := temptation(w, rec, gr, n)
				oldest := true
				for _, u := range gr.GV.Untainted {
					if u.CreationTimestamp.Time.Before(n.CreationTimestamp.Time) {
						oldest = false
					}
				}
				if tmp == "untainted" && !(oldest && len(gr.TaintedNow()) > 0) {
					continue
				}
				if tmp == "tainted" && len(gr.UntaintedNow()) == 0 && len(gr.Increase) == 0 {
					continue
				}
				keys = append(keys, fmt.Sprintf("cordon|%s|%s|%s", tmp, ex.Kind, act))
			}
		}
		return keys
	}})
}

// ---------------------------------------------------------------- C10

func TestC10(t *testing.T) {
	p := &world.Profile{Name: "annot", Linger: true, FaultFocus: "node-writes", BulkWhat: []string{"taint+annotate+drain", "taint+annotate", "annotate", "taint+drain"}, MinGroups: 1, MaxGroups: 2, Fleet: 0, Auto: 1, MaxInit: 8, SmallGraces: true, Steps: 30, Stale: true,
		Weights: with(baseWeights(), "annotate", 8, "taintExt", 6, "advance", 9, "clearNode", 3, "cordon", 1, "asgEdit", 2, "asgDesired", 2, "staleWindow", 2, "fault", 3, "leftoverNode", 2, "dueProtected", 3, "raceOnWrite", 3, "annotatedWhileDraining", 3)}
	col := newCollector(t, "C10", "history check; non-trivial = a reaping scan that sees an annotated node satisfying the removal condition, with or without other removable nodes; distinct by (temptation, value class, others removed, empty)")
	historyCheck(t, &historyOpts{prop: "C10", profile: p, col: col, classify: func(w *world.World, rec *world.ScanRecord) []string {
		var keys []string
		for _, gr := range rec.Groups {
			if !gr.Processed || gr.Dry {
				continue
			}
			ex := w.Expectation(rec, gr)
			if ex.Kind != "band" || ex.Bands[ref.BandUp] {
				continue
			}
			for _, n := range gr.GV.Tainted {
				if _, has := n.Annotations[ref.NoDeleteKey]; !has {
					continue
				}
				tmp := temptation(w, rec, gr, n)
				if tmp != "hard-expired" && tmp != "soft-expired-empty" {
					continue
				}
				keys = append(keys, fmt.Sprintf("annot|%s|empty=%v|others=%d|value=%q", tmp, n.Annotations[ref.NoDeleteKey] == "", minI(len(gr.TermOK), 2), n.Annotations[ref.NoDeleteKey]))
			}
		}
		return keys
	}})
}

// ---------------------------------------------------------------- C11

// dryBranch names the decision branch a dry group took, from the documented decision procedure.
func dryBranch(w *world.World, rec *world.ScanRecord, gr *world.GroupRec) string {
	if !gr.Processed || gr.ListFault {
		return ""
	}
	delta := gr.Gauge["scale_delta"]
	n, U := len(gr.GV.Nodes), int(gr.Gauge["untainted"])
	if gr.Gauge["untainted"] == world.GaugeUnset {
		return ""
	}
	switch {
	case n == 0 && len(gr.GV.Pods) == 0:
		return ""
	case n < gr.EffMin || n > gr.EffMax:
		return ""
	case U < gr.EffMin:
		return "recover"
	case delta > 0 && int(gr.Gauge["tainted"]) > 0:
		return "up-untaint"
	case delta > 0 && U == 0:
		return "up-from-zero"
	case delta > 0:
		return "up-cloud"
	case delta < 0:
		return "down-taint"
	}
	if int(gr.Gauge["tainted"]) > 0 {
		return "reap-check"
	}
	return ""
}

func TestC11(t *testing.T) {
	p := &world.Profile{Name: "dry", MinGroups: 1, MaxGroups: 3, Dry: 2, Fleet: 1, Auto: 1, MaxInit: 8, SmallGraces: true, Steps: 30,
		Weights: with(baseWeights(), "targetUtil", 12, "taintExt", 5, "advance", 8, "clearNode", 2, "cordon", 1, "asgEdit", 3, "drainAndForce", 1, "terminating", 2, "gracefulDelete", 1, "refreshFails", 3)}
	col := newCollector(t, "C11", "history check; group 0 is always dry (group option or global flag); non-trivial = a scan in which the dry group took a branch that writes when not dry (recover, scale-up with/without tracked nodes, from zero, scale-down taint, reap of really-expired tainted nodes, force removal); distinct by (branch, via-global, fleet, real expired taints present)")
	historyCheck(t, &historyOpts{prop: "C11", profile: p, col: col, classify: func(w *world.World, rec *world.ScanRecord) []string {
		var keys []string
		for _, gr := range rec.Groups {
			if !gr.Dry {
				continue
			}
			br := dryBranch(w, rec, gr)
			if br == "" {
				continue
			}
			expired := 0
			for _, n := range append(append([]*v1.Node{}, gr.GV.Tainted...), gr.GV.Force...) {
				if tmp := temptation(w, rec, gr, n); tmp == "hard-expired" || tmp == "soft-expired-empty" || tmp == "force-empty" {
					expired++
				}
			}
			keys = append(keys, fmt.Sprintf("dry|%s|global=%v|fleet=%v|expired=%d", br, w.Cfg.GlobalDry, w.Cfg.IsFleet(gr.G), minI(expired, 2)))
		}
		return keys
	}})
}

// ---------------------------------------------------------------- C12

func TestC12(t *testing.T) {
	p := &world.Profile{Name: "isolation", Linger: true, MinGroups: 2, MaxGroups: 3, Dry: 1, Fleet: 3, Auto: 1, Default: 1, MaxAge: 1, MaxInit: 6, SmallGraces: true, Steps: 30,
		Weights: with(baseWeights(), "targetUtil", 12, "taintExt", 4, "fault", 2, "advance", 6, "addPods", 6, "drainAndForce", 1, "noProvNode", 2, "asgEdit", 2, "neighbourFails", 3, "replaceAndReap", 2, "leftoverNode", 3, "fleetFailsEverywhere", 2, "refreshFails", 1, "pinAsg", 2, "parkedAsg", 2, "zeroOut", 1, "idleBlip", 1, "rebuildThenReapNewNode", 2)}
	col := newCollector(t, "C12", "history check with 2-3 groups; non-trivial = a scan in which at least two groups act, or one group fails non-fatally before another is processed; distinct by (acting groups, failing group position, default group present)")
	historyCheck(t, &historyOpts{prop: "C12", profile: p, col: col, classify: func(w *world.World, rec *world.ScanRecord) []string {
		acting, failedBefore := 0, false
		sawFail := false
		pat := ""
		for _, gr := range rec.Groups {
			a := gr.K8sWrites+gr.AWSWrites > 0
			if a {
				acting++
				pat += "A"
			} else {
				pat += "-"
			}
			if sawFail && gr.Processed {
				failedBefore = true
			}
			if gr.ListFault || len(gr.Failed) > 0 || gr.TermFail > 0 {
				sawFail = true
			}
		}
		if acting >= 2 || failedBefore {
			hasDefault := false
			for _, g := range w.Cfg.Groups {
				if g.Opts.Name == "default" {
					hasDefault = true
				}
			}
			return []string{fmt.Sprintf("iso|%s|failBefore=%v|default=%v", pat, failedBefore, hasDefault)}
		}
		return nil
	}})
}

// ---------------------------------------------------------------- C15 (history half)

func TestC15History(t *testing.T) {
	p := &world.Profile{Name: "taints", MinGroups: 1, MaxGroups: 2, Auto: 1, MaxInit: 8, SmallGraces: true, Steps: 30, Stale: true,
		Weights: with(baseWeights(), "targetUtil", 14, "foreignTaint", 6, "taintExt", 5, "advance", 4, "annotate", 2, "staleWindow", 3, "fault", 1, "latency", 4, "raceOnWrite", 3)}
	col := newCollector(t, "C15", "history half: every accepted node update is compared with the stored object it replaced; non-trivial = an update on a node with >= 2 foreign taints, or a re-taint of a node tainted and untainted earlier, or a scale-down over already tainted nodes (stale view); distinct by (add/remove, foreign taints, stale no-op)")
	tainted := map[string]int{}
	historyCheck(t, &historyOpts{prop: "C15", profile: p, col: col, classify: func(w *world.World, rec *world.ScanRecord) []string {
		var keys []string
		if rec.Index == 0 {
			for k := range tainted {
				delete(tainted, k)
			}
		}
		for _, gr := range rec.Groups {
			for _, e := range gr.Seg {
				if e.Kind != sim.KUpdate || !e.OK() || e.Before == nil {
					continue
				}
				foreign := 0
				for _, t := range e.Before.Spec.Taints {
					if t.Key != ref.TaintKey {
						foreign++
					}
				}
				add := len(e.Sent.Spec.Taints) > len(e.Before.Spec.Taints)
				if add {
					tainted[e.Node]++
				}
				if foreign >= 2 || tainted[e.Node] >= 2 {
					keys = append(keys, fmt.Sprintf("write|add=%v|foreign=%d|retaint=%v|labels=%d", add, minI(foreign, 4), tainted[e.Node] >= 2, len(e.Before.Annotations)))
				}
			}
			if len(gr.TaintNoop) > 0 {
				keys = append(keys, fmt.Sprintf("write|stale-noop=%d", minI(len(gr.TaintNoop), 3)))
			}
		}
		return keys
	}})
}

// ---------------------------------------------------------------- C19 (history half)

func TestC19History(t *testing.T) {
	p := &world.Profile{Name: "removal", Linger: true, BulkWhat: []string{"taint+drain", "force+drain", "taint"}, MinGroups: 1, MaxGroups: 2, Auto: 1, MaxInit: 8, SmallGraces: true, Steps: 30, Stale: true,
		Weights: with(baseWeights(), "taintExt", 8, "advance", 9, "detach", 3, "fault", 3, "clearNode", 3, "asgEdit", 2, "asgDesired", 2, "gcNodes", 1, "drainAndForce", 2, "storm", 2, "forceBusy", 1, "staleWindow", 3, "leftoverNode", 2, "replaceAndReap", 2, "rebuildThenReapNewNode", 3)}
	col := newCollector(t, "C19", "history half: ordering of cloud terminations and node deletions; non-trivial = a removal batch of >= 2 with a failure or foreign node inside it, two batches in one scan, a not-in-group exit, or an ASG-minimum refusal; distinct by those flags and sizes")
	historyCheck(t, &historyOpts{prop: "C19", profile: p, col: col, classify: func(w *world.World, rec *world.ScanRecord) []string {
		var keys []string
		for _, gr := range rec.Groups {
			if len(gr.DeleteCalls) == 0 {
				continue
			}
			for i, dc := range gr.DeleteCalls {
				cls := "ok"
				switch {
				case dc.ErrType != "" && len(dc.ErrType) > 0 && dc.Err != "" && containsStr(dc.ErrType, "NodeNotInNodeGroup"):
					cls = "foreign"
				case containsStr(dc.Err, "min"):
					cls = "min-refused"
				case dc.Err != "":
					cls = "failed"
				}
				if len(dc.Names) >= 2 && cls != "ok" || len(gr.DeleteCalls) >= 2 || cls == "foreign" || cls == "min-refused" {
					keys = append(keys, fmt.Sprintf("del|%s|n=%d|batch=%d/%d|termOK=%d", cls, minI(len(dc.Names), 4), i, len(gr.DeleteCalls), minI(len(gr.TermOK), 4)))
				}
			}
		}
		return keys
	}})
}

func containsStr(s, sub string) bool {
	return len(sub) > 0 && len(s) >= len(sub) && (stringIndex(s, sub) >= 0)
}

func stringIndex(s, sub string) int {
	for i := 0; i+len(sub) <= len(s); i++ {
		if s[i:i+len(sub)] == sub {
			return i
		}
	}
	return -1
}

// ---------------------------------------------------------------- C20

func TestC20(t *testing.T) {
	p := &world.Profile{Name: "chaos", Linger: true, OddConfig: true, DupTaints: true, MinGroups: 1, MaxGroups: 3, Dry: 1, Fleet: 1, Auto: 1, Default: 1, Starve: 1, MaxAge: 1, MaxInit: 10, SmallGraces: true, Steps: 30, Stale: true,
		Weights: with(baseWeights(), "oddNode", 5, "oddPod", 5, "fault", 8, "taintExt", 6, "killNode", 2, "detach", 1, "asgEdit", 1, "fleetPlan", 2, "advance", 8, "gcNodes", 1, "staleWindow", 2, "zeroOut", 1, "tinyThenZero", 2, "dupNode", 2, "terminating", 2, "latency", 1, "leftoverNode", 2, "massDeleteFails", 2, "fleetFailsEverywhere", 1, "refreshFails", 1, "clonePod", 1, "replaceAndReap", 3, "lagLookup", 3, "onlyCordonedLeft", 1, "parkedAsg", 2)}
	col := newCollector(t, "C20", "chaos histories: malformed nodes/pods, absurd taint values, API and cloud failures at drawn call indices; non-trivial = a scan in which an injected failure was hit, or an odd object was part of a processed in-bounds group; distinct by (fault kinds hit, odd kinds present, outcome)")
	historyCheck(t, &historyOpts{prop: "C20", profile: p, col: col, extra: nextScanNormal, classify: func(w *world.World, rec *world.ScanRecord) []string {
		var keys []string
		if rec.FaultHits > 0 {
			kinds := map[string]bool{}
			for _, e := range rec.Entries {
				if e.Injected {
					kinds[e.Kind] = true
				}
			}
			var ks []string
			for k := range kinds {
				ks = append(ks, k)
			}
			sortStrings(ks)
			keys = append(keys, fmt.Sprintf("fault|%v|err=%v|exit=%v", ks, rec.Err != nil, rec.FatalExit))
		}
		for _, a := range w.Log {
			if a.Op == "oddNode" || a.Op == "oddPod" {
				for _, gr := range rec.Groups {
					if gr.Processed && gr.G == a.Group && gr.Gauge["cpu_capacity"] != world.GaugeUnset {
						keys = append(keys, fmt.Sprintf("odd|%s|%s|locked=%v", a.Op, a.Key, gr.Locked))
					}
				}
			}
		}
		return keys
	}})
}

func sortStrings(s []string) {
	for i := 1; i < len(s); i++ {
		for j := i; j > 0 && s[j] < s[j-1]; j-- {
			s[j], s[j-1] = s[j-1], s[j]
		}
	}
}

// ---------------------------------------------------------------- C13 (end-to-end half)

func TestC13History(t *testing.T) {
	p := &world.Profile{Name: "gauges", MinGroups: 1, MaxGroups: 2, Auto: 1, Default: 1, Starve: 1, MaxInit: 8, SmallGraces: true, Steps: 25, Stale: true,
		Weights: with(baseWeights(), "addPods", 8, "targetUtil", 6, "cordon", 5, "taintExt", 4, "schedule", 2, "replacePod", 6, "resizePod", 4, "gracefulDelete", 4, "clonePod", 3, "replaceBetweenScans", 2, "fracAllocStarve", 3)}
	col := newCollector(t, "C13", "end-to-end: after every scan the request and capacity gauges are compared with exact totals computed from the view (pods by the reference attribution, allocatable over untainted uncordoned nodes) with shuffled list orders; non-trivial = a scan with init containers or overhead among the pods, or cordoned/tainted nodes next to untainted ones, in a shuffled order; distinct by (pods, classes present, shuffled)")
	historyCheck(t, &historyOpts{prop: "C13", profile: p, col: col, extra: largerDrives, classify: func(w *world.World, rec *world.ScanRecord) []string {
		var keys []string
		for _, gr := range rec.Groups {
			if !gr.Processed || gr.Dry || gr.Gauge["cpu_request"] == world.GaugeUnset {
				continue
			}
			special := 0
			for _, p := range gr.GV.Pods {
				if len(p.Spec.InitContainers) > 0 || p.Spec.Overhead != nil {
					special++
				}
			}
			mixed := len(gr.GV.Untainted) > 0 && len(gr.GV.Cordoned)+len(gr.GV.Tainted)+len(gr.GV.Force) > 0
			if special > 0 || mixed {
				keys = append(keys, fmt.Sprintf("gauges|pods=%d|special=%d|cord=%d|taint=%d|force=%d|U=%d", minI(len(gr.GV.Pods), 6), minI(special, 3), minI(len(gr.GV.Cordoned), 2), minI(len(gr.GV.Tainted), 2), minI(len(gr.GV.Force), 2), minI(len(gr.GV.Untainted), 4)))
			}
		}
		return keys
	}})
}

// ---------------------------------------------------------------- C18 (history half: no lock after a failed fleet scale-up)

func TestC18History(t *testing.T) {
	p := &world.Profile{Name: "fleetfail", MinGroups: 1, MaxGroups: 2, Fleet: 2, Auto: 1, MaxInit: 6, SmallGraces: true, Steps: 25,
		Weights: with(baseWeights(), "targetUtil", 14, "scan", 14, "fleetPlan", 8, "fault", 2, "advance", 4, "taintExt", 1, "cordon", 1, "fleetFailsEverywhere", 2)}
	col := newCollector(t, "C18", "history half: fleet-mode groups whose CreateFleet / readiness / attach steps fail in drawn ways; the scan after a failed scale-up, inside what would have been the cool-down, is judged as unlocked by the band oracle; non-trivial = a scan that follows a failed fleet scale-up of the same group and for which the band oracle demands an action; distinct by (failure shape, expected band)")
	historyCheck(t, &historyOpts{prop: "C18", profile: p, col: col, classify: func(w *world.World, rec *world.ScanRecord) []string {
		var keys []string
		for _, gr := range rec.Groups {
			if !gr.PrevIncreaseFailed || rec.Restarted {
				continue
			}
			ex := w.Expectation(rec, gr)
			if ex.Kind == "band" && !(ex.Bands == [4]bool{false, false, true, false}) {
				keys = append(keys, fmt.Sprintf("afterfail|%v|acted=%v", ex.Bands, gr.K8sWrites+gr.AWSWrites > 0))
			}
			if ex.Kind == "recover" {
				keys = append(keys, fmt.Sprintf("afterfail|recover|acted=%v", gr.K8sWrites+gr.AWSWrites > 0))
			}
		}
		return keys
	}})
}

// ---------------------------------------------------------------- C14 (end-to-end half)

func TestC14History(t *testing.T) {
	p := &world.Profile{Name: "attribution", MinGroups: 1, MaxGroups: 3, Auto: 1, Default: 1, MaxInit: 5, SmallGraces: true, Steps: 25,
		Weights: map[string]int{"scan": 12, "addPods": 10, "replacePod": 6, "retargetPod": 6, "finishPods": 3, "targetUtil": 3, "schedule": 2, "launch": 2, "cordon": 1, "taintExt": 1, "advance": 1, "restart": 1, "oddPod": 3, "noProvNode": 2, "gracefulDelete": 4, "resizePod": 2, "clonePod": 4, "relabel": 4}}
	col := newCollector(t, "C14", "end-to-end: along histories in which pods come, go and are re-created under the same name with a different selector / affinity / owner / static annotation, the number of pods and nodes each scan saw (count gauges set from the real filtered listers, which live across scans) equals the documented attribution; non-trivial = a scan after a same-name replacement that changed the pod's group, or with >= 2 groups sharing a label key; distinct by situation digest")
	historyCheck(t, &historyOpts{prop: "C14", profile: p, col: col, extra: countedPodsAreTheAttributedOnes, classify: func(w *world.World, rec *world.ScanRecord) []string {
		replaced := 0
		for _, a := range w.Log {
			if a.Op == "replacePod" {
				replaced++
			}
		}
		shared := len(w.Cfg.Groups) > 1 && w.Cfg.Groups[0].Opts.LabelKey == w.Cfg.Groups[1].Opts.LabelKey
		if replaced > 0 || shared {
			return []string{fmt.Sprintf("attr|replaced=%d|shared=%v|groups=%d", minI(replaced, 3), shared, len(w.Cfg.Groups))}
		}
		return nil
	}})
}

// TestC20Dry: the chaos profile with the first group always in dry mode (its in-memory taint
// trackers are state that only dry mode exercises) and nodes that come and go.
func TestC20Dry(t *testing.T) {
	p := &world.Profile{Name: "chaos-dry", DupTaints: true, MinGroups: 1, MaxGroups: 2, Dry: 2, Fleet: 1, Auto: 1, Default: 1, MaxInit: 8, SmallGraces: true, Steps: 30, Stale: true,
		Weights: with(baseWeights(), "targetUtil", 12, "killNode", 5, "gcNodes", 2, "launch", 4, "oddNode", 2, "oddPod", 2, "fault", 3, "taintExt", 4, "asgEdit", 1, "advance", 6, "restart", 1)}
	col := newCollector(t, "C20", "chaos histories with the first group always dry (tracker state carried between scans), nodes killed / launched between scans, malformed objects and API failures; non-trivial = a scan of a dry group after at least one tracked node left the node list; distinct by situation digest")
	historyCheck(t, &historyOpts{prop: "C20", profile: p, col: col, classify: func(w *world.World, rec *world.ScanRecord) []string {
		kills := 0
		for _, a := range w.Log {
			if a.Op == "killNode" {
				kills++
			}
		}
		if kills > 0 && len(rec.Groups) > 0 && rec.Groups[0].Processed {
			return []string{fmt.Sprintf("dry-chaos|kills=%d|scans=%d", minI(kills, 4), minI(rec.Index, 4))}
		}
		return nil
	}})
}

// Large-group variants (see bigProfile): same oracles, group sizes and bulk steps around the
// places where code batches, pre-sizes or paginates.
func TestC01Big(t *testing.T)        { TestC01(t) }
func TestC03Big(t *testing.T)        { TestC03(t) }
func TestC04Big(t *testing.T)        { TestC04(t) }
func TestC07Big(t *testing.T)        { TestC07(t) }
func TestC08Big(t *testing.T)        { TestC08(t) }
func TestC09Big(t *testing.T)        { TestC09(t) }
func TestC10Big(t *testing.T)        { TestC10(t) }
func TestC19HistoryBig(t *testing.T) { TestC19History(t) }
func TestC12Big(t *testing.T)        { TestC12(t) }
func TestC05HistoryBig(t *testing.T) { TestC05History(t) }
func TestC06Big(t *testing.T)        { TestC06(t) }
func TestC13HistoryBig(t *testing.T) { TestC13History(t) }

// ---------------------------------------------------------------- C17 (history half)

// TestC17History: along histories in which the provider is rebuilt after failed refreshes and the cloud
// group's desired capacity is changed by others between scans, every accepted SetDesiredCapacity of a
// scale-up sets exactly (the group's real desired capacity at that moment) + (the delta escalator asked
// its provider for), and never lowers it.
func TestC17History(t *testing.T) {
	p := &world.Profile{Name: "absolute-set", MinGroups: 1, MaxGroups: 2, Fleet: 0, Auto: 1, MaxInit: 8, SmallGraces: true, Steps: 25,
		Weights: with(baseWeights(), "targetUtil", 14, "scan", 12, "asgDesired", 6, "asgEdit", 2, "refreshFails", 5, "restart", 1, "fault", 2, "launch", 3, "reconcile", 2, "register", 2, "drainAndForce", 2, "advance", 8, "rebuildThenExternalResize", 5)}
	col := newCollector(t, "C17", "history half: scale-ups through the real provider under the real controller, with failed refreshes (provider rebuilt), external changes of the desired capacity between scans and same-scan removals; oracle: accepted SetDesiredCapacity value = real desired capacity at call time + delta passed to IncreaseSize, and above it; non-trivial = an accepted resize in a scan after a provider rebuild or an external change of the desired capacity; distinct by situation digest")
	historyCheck(t, &historyOpts{prop: "C17", profile: p, col: col, extra: func(w *world.World, rec *world.ScanRecord) []world.Violation {
		var out []world.Violation
		if rec.MidScanChange {
			return nil
		}
		for _, gr := range rec.Groups {
			if w.Cfg.IsFleet(gr.G) || len(gr.IncreaseCalls) != 1 || len(gr.Increase) != 1 || gr.Increase[0].Kind != sim.ASetDesired {
				continue
			}
			e, d := gr.Increase[0], gr.IncreaseCalls[0].Value
			if e.Value <= e.PreDesired {
				out = append(out, world.Violation{Prop: "C17", Sig: "C17:scale-up-lowers-desired", Msg: fmt.Sprintf("group %d: SetDesiredCapacity(%d) on a desired capacity of %d during a scale-up by %d", gr.G, e.Value, e.PreDesired, d)})
			} else if e.Value != e.PreDesired+d {
				out = append(out, world.Violation{Prop: "C17", Sig: "C17:set-desired-not-current-plus-delta", Msg: fmt.Sprintf("group %d: SetDesiredCapacity(%d), desired capacity was %d and the scale-up was by %d", gr.G, e.Value, e.PreDesired, d)})
			}
		}
		return out
	}, classify: func(w *world.World, rec *world.ScanRecord) []string {
		disturbed := false
		for _, a := range w.Log {
			if a.Op == "asgDesired" || a.Op == "seq" {
				disturbed = true
			}
		}
		var keys []string
		for _, gr := range rec.Groups {
			if disturbed && len(gr.Increase) > 0 && gr.Increase[0].OK() {
				keys = append(keys, fmt.Sprintf("resize|g=%d", gr.G))
			}
		}
		return keys
	}})
}

// countedPodsAreTheAttributedOnes: the pods that count toward a group are exactly the attributed ones, each once: with
// the right number of pods but a request total that differs from the exact total over the attributed
// pods, some pod was counted that does not belong (or twice) while another was left out.
func countedPodsAreTheAttributedOnes(w *world.World, rec *world.ScanRecord) []world.Violation {
	var out []world.Violation
	vs := w.M13(rec)
	for _, gr := range rec.Groups {
		// only where every object is inside the input domain (absurd magnitudes overflow the totals by design, see 3.1)
		switch w.Expectation(rec, gr).Kind {
		case "odd", "ambiguous", "unprocessed", "aborted", "dry":
			continue
		}
		for _, v := range vs {
			if v.Sig == "C13:request-gauge-mismatch" && strings.HasPrefix(v.Msg, fmt.Sprintf("group %d:", gr.G)) {
				out = append(out, world.Violation{Prop: "C14", Sig: "C14:request-total-not-over-the-attributed-pods", Msg: v.Msg})
			}
		}
	}
	return out
}

// quietScan: no failure injected or armed, no restart, and no node carries the escalator key twice
// (which of two such taints counts is not defined).
func quietScan(rec *world.ScanRecord) bool {
	if rec.FaultHits > 0 || len(rec.FaultsArmed) > 0 || rec.Restarted || rec.View == nil {
		return false
	}
	twice := func(n *v1.Node) bool {
		k := 0
		for _, t := range n.Spec.Taints {
			if t.Key == ref.TaintKey {
				k++
			}
		}
		return k > 1
	}
	for _, n := range rec.View.Nodes {
		if twice(n) {
			return false
		}
	}
	for _, n := range rec.API { // the cache may lag: what the API server holds is what a write meets
		if n != nil && twice(n) {
			return false
		}
	}
	return true
}

// groupVerdicts returns the band-rule verdicts (M06) that name group g.
func groupVerdicts(w *world.World, rec *world.ScanRecord, g int) []world.Violation {
	var out []world.Violation
	for _, v := range w.M06(rec) {
		if v.Prop == "C06" && (strings.HasPrefix(v.Msg, fmt.Sprintf("group %d:", g)) || strings.HasPrefix(v.Msg, fmt.Sprintf("group %d ", g))) {
			out = append(out, v)
		}
	}
	return out
}

// cordonedNotCounted: a group whose only nodes in service are cordoned is a group without capacity:
// with pods waiting it scales up from zero exactly as if the cordoned nodes were not there (C09:
// cordoned nodes are excluded from what decisions are based on).
func cordonedNotCounted(w *world.World, rec *world.ScanRecord) []world.Violation {
	var out []world.Violation
	if !quietScan(rec) {
		return nil
	}
	for _, gr := range rec.Groups {
		if !gr.Processed || gr.Dry || len(gr.GV.Cordoned) == 0 || len(gr.GV.Untainted) > 0 {
			continue
		}
		if ex := w.Expectation(rec, gr); ex.Kind != "band" || !ex.FromZero {
			continue
		}
		for _, v := range groupVerdicts(w, rec, gr.G) {
			out = append(out, world.Violation{Prop: "C09", Sig: "C09:cordoned-nodes-counted-at-zero-capacity:" + v.Sig, Msg: fmt.Sprintf("group %d has no node in service besides %d cordoned ones and pods waiting: %s", gr.G, len(gr.GV.Cordoned), v.Msg)})
		}
	}
	return out
}

// largerDrives: "the larger of the two drives decisions". In a quiet scan of a group whose cpu and
// memory utilisation on their own fall into different bands, the band rule must hold for the larger one.
func largerDrives(w *world.World, rec *world.ScanRecord) []world.Violation {
	var out []world.Violation
	if !quietScan(rec) {
		return nil
	}
	for _, gr := range rec.Groups {
		if !gr.Processed || gr.Dry || len(gr.GV.Untainted) == 0 {
			continue
		}
		if ex := w.Expectation(rec, gr); ex.Kind != "band" {
			continue
		}
		o := &w.Cfg.Groups[gr.G].Opts
		L, U, S := int64(o.TaintLowerCapacityThresholdPercent), int64(o.TaintUpperCapacityThresholdPercent), int64(o.ScaleUpThresholdPercent)
		gv := gr.GV
		bc, _ := ref.Bands(gv.ReqCPU, gv.CapCPU, gv.ReqCPU, gv.CapCPU, L, U, S)
		bm, _ := ref.Bands(gv.ReqMem, gv.CapMem, gv.ReqMem, gv.CapMem, L, U, S)
		if bc == bm {
			continue
		}
		for _, v := range groupVerdicts(w, rec, gr.G) {
			out = append(out, world.Violation{Prop: "C13", Sig: "C13:decision-not-driven-by-larger:" + v.Sig, Msg: fmt.Sprintf("group %d: cpu alone gives bands %v, memory alone %v: %s", gr.G, bc, bm, v.Msg)})
		}
	}
	return out
}

// nextScanNormal: "after a transient failure the next scan proceeds normally". A scan in which no
// failure is injected must follow the band rule in every group whose objects are inside the input
// domain (groups holding malformed objects are judged for crash-freedom only, see world.Expectation).
func nextScanNormal(w *world.World, rec *world.ScanRecord) []world.Violation {
	var out []world.Violation
	if !quietScan(rec) { // failures, a restart, or the escalator key twice on one node (which one counts is not defined)
		return nil
	}
	for _, v := range w.M06(rec) {
		if v.Prop == "C06" {
			out = append(out, world.Violation{Prop: "C20", Sig: "C20:next-scan-abnormal:" + v.Sig, Msg: "a scan without any failure does not behave normally: " + v.Msg})
		}
	}
	return out
}
