// Package stats collects what a check actually generated: case counts, class histogram,
// the set of distinct non-trivial cases and a few written-out samples. The driver merges
// the per-process files into /verif/evidence/<id>.json.
package stats

import (
	"encoding/json"
	"hash/fnv"
	"os"
	"sort"
	"sync"
)

// MaxDistinct caps the per-process set of distinct non-trivial case hashes.
const MaxDistinct = 100000

// Collector accumulates statistics for one check in one process.
type Collector struct {
	mu          sync.Mutex
	Property    string           `json:"property"`
	Cases       int64            `json:"cases"`
	Evaluations int64            `json:"evaluations"`
	Extra       map[string]int64 `json:"extra"`
	Classes     map[string]int64 `json:"classes"`
	Distinct    map[uint64]bool  `json:"-"`
	DistinctL   []uint64         `json:"distinct"`
	Samples     []any            `json:"samples"`
	MaxSamples  int              `json:"-"`
	Exhaustive  bool             `json:"exhaustive"`
	Known       map[string]int64 `json:"known"`
	Excluded    map[string]int64 `json:"excluded"`
	Rule        string           `json:"rule"`
	Assumptions []string         `json:"assumptions"`
	sampleSeen  int64
}

// New returns a collector for the property.
func New(prop, rule string) *Collector {
	return &Collector{Property: prop, Rule: rule, Extra: map[string]int64{}, Classes: map[string]int64{},
		Distinct: map[uint64]bool{}, MaxSamples: 6, Known: map[string]int64{}, Excluded: map[string]int64{}}
}

// Case counts one generated case.
func (c *Collector) Case() { c.mu.Lock(); c.Cases++; c.mu.Unlock() }

// Eval counts n oracle evaluations.
func (c *Collector) Eval(n int) { c.mu.Lock(); c.Evaluations += int64(n); c.mu.Unlock() }

// Add increments a named extra counter.
func (c *Collector) Add(name string, n int) { c.mu.Lock(); c.Extra[name] += int64(n); c.mu.Unlock() }

// Class increments a class label.
func (c *Collector) Class(label string) { c.mu.Lock(); c.Classes[label]++; c.mu.Unlock() }

// Nontrivial records a distinct non-trivial case by its canonical key.
func (c *Collector) Nontrivial(key string) {
	h := fnv.New64a()
	h.Write([]byte(key))
	c.mu.Lock()
	// the set is capped: beyond the cap further cases are only counted, so the reported
	// number of distinct non-trivial cases is a lower bound
	if len(c.Distinct) < MaxDistinct {
		c.Distinct[h.Sum64()] = true
	} else if !c.Distinct[h.Sum64()] {
		c.Extra["nontrivial_beyond_distinct_cap"]++
	}
	c.mu.Unlock()
}

// KnownFinding counts one occurrence of a listed finding.
func (c *Collector) KnownFinding(sig string) { c.mu.Lock(); c.Known[sig]++; c.mu.Unlock() }

// Exclude counts one case excluded by construction because of an open finding.
func (c *Collector) Exclude(sig string) { c.mu.Lock(); c.Excluded[sig]++; c.mu.Unlock() }

// Sample keeps the first few and then a sparse selection of later samples.
func (c *Collector) Sample(v any) {
	c.mu.Lock()
	defer c.mu.Unlock()
	c.sampleSeen++
	if len(c.Samples) < c.MaxSamples {
		c.Samples = append(c.Samples, v)
		return
	}
	// deterministic sparse replacement: keep powers of two positions in the tail slots
	n := c.sampleSeen
	if n&(n-1) == 0 {
		c.Samples[c.MaxSamples/2+int(n%int64(c.MaxSamples-c.MaxSamples/2))] = v
	}
}

// Write stores the collector as JSON.
func (c *Collector) Write(path string) error {
	c.mu.Lock()
	defer c.mu.Unlock()
	c.DistinctL = c.DistinctL[:0]
	for h := range c.Distinct {
		c.DistinctL = append(c.DistinctL, h)
	}
	sort.Slice(c.DistinctL, func(i, j int) bool { return c.DistinctL[i] < c.DistinctL[j] })
	b, err := json.Marshal(c)
	if err != nil {
		return err
	}
	return os.WriteFile(path, b, 0o644)
}
