//go:build verif

package verifharness

import (
	"fmt"
	"sort"
	"strings"
	"testing"
	"time"

	"github.com/atlassian/escalator/pkg/cloudprovider"
	awsprov "github.com/atlassian/escalator/pkg/cloudprovider/aws"
	v1 "k8s.io/api/core/v1"
	metav1 "k8s.io/apimachinery/pkg/apis/meta/v1"
	"pgregory.net/rapid"

	"verifharness/sim"
)

// awsCase is one direct scenario on the real AWS provider over the simulated cloud.
type awsCase struct {
	j    *sim.Journal
	a    *sim.AWS
	asg  *sim.ASG
	prov *awsprov.CloudProvider
	ng   cloudprovider.NodeGroup
	cfg  cloudprovider.NodeGroupConfig
}

func newAWSCase(min, desired, max int64, cfg cloudprovider.NodeGroupConfig, zones string, instances ...int64) (*awsCase, error) {
	j := sim.NewJournal()
	a := sim.NewAWS(j)
	g := a.AddASG(cfg.GroupID, min, max, desired, zones)
	// the instance list may differ from the desired capacity (instances still launching, or
	// lingering while they terminate)
	count := desired
	if len(instances) > 0 && instances[0] >= 0 {
		count = instances[0]
	}
	for i := int64(0); i < count; i++ {
		a.NewInstance(g.Name)
	}
	p, err := awsprov.VerifNewCloudProvider(a.AutoScaling(), a.EC2(), cfg)
	if err != nil {
		return nil, err
	}
	ng, ok := p.GetNodeGroup(cfg.GroupID)
	if !ok {
		return nil, fmt.Errorf("group not registered")
	}
	return &awsCase{j: j, a: a, asg: g, prov: p, ng: ng, cfg: cfg}, nil
}

func writesOf(es []sim.Entry) []sim.Entry {
	var out []sim.Entry
	for _, e := range es {
		if e.IsAWSWrite() {
			out = append(out, e)
		}
	}
	return out
}

func drawFleetCfg(rt *rapid.T, fleet bool) (cloudprovider.NodeGroupConfig, string) {
	cfg := cloudprovider.NodeGroupConfig{Name: "grp", GroupID: "asg-x"}
	zones := []string{"subnet-a", "subnet-a,subnet-b", "subnet-a,subnet-b,subnet-c"}[rapid.IntRange(0, 2).Draw(rt, "subnets")]
	cfg.AWSConfig.ResourceTagging = rapid.Bool().Draw(rt, "tagging")
	if fleet {
		cfg.AWSConfig.LaunchTemplateID = "lt-0123456789abcdef0"
		cfg.AWSConfig.LaunchTemplateVersion = rapid.SampledFrom([]string{"1", "7", "$Latest"}).Draw(rt, "ltVersion")
		cfg.AWSConfig.Lifecycle = rapid.SampledFrom([]string{"", "on-demand", "spot"}).Draw(rt, "lifecycle")
		cfg.AWSConfig.InstanceTypeOverrides = []string{"m5.large", "m5a.large", "c5.large"}[:rapid.IntRange(0, 3).Draw(rt, "overrides")]
		cfg.AWSConfig.FleetInstanceReadyTimeout = rapid.SampledFrom([]time.Duration{10 * time.Second, time.Minute, 5 * time.Minute}).Draw(rt, "readyTimeout")
	}
	return cfg, zones
}

func fail(rt *rapid.T, dumpTo string, sig, f string, a ...any) {
	msg := fmt.Sprintf(f, a...)
	if path := dumpTo; path != "" {
		_ = writeFile(path, "VIOLATION "+sig+"\n"+msg+"\n")
	}
	rt.Logf("%s", msg)
	rt.Fatalf("VIOLATION %s", sig)
}

// ---------------------------------------------------------------- C17

var fleetSizes = []int64{1, 2, 19, 20, 21, 39, 40, 41, 59, 60, 61, 99, 100, 101, 150, 199, 200, 201, 250, 999, 1000, 1001}

func TestC17(t *testing.T) {
	col := newCollector(t, "C17", "direct: IncreaseSize(d) on the real AWS provider over a stateful simulated AWS that records every argument; non-trivial = d on a bounds boundary, a fleet size that is not a multiple of 20, >= 2 fleet entries or a stale cache; distinct by (mode, d class, size mod 20, batches, split, lifecycle, overrides, stale)")
	rapid.Check(t, func(rt *rapid.T) {
		rapid.SyncTest(rt, func(rt *rapid.T) {
			col.Case()
			fleet := rapid.Bool().Draw(rt, "fleet")
			cfg, zones := drawFleetCfg(rt, fleet)
			min := int64(rapid.IntRange(0, 5).Draw(rt, "min"))
			desired := min + int64(rapid.IntRange(0, 12).Draw(rt, "desiredGap"))
			var d, max int64
			dClass := ""
			if fleet {
				d = rapid.SampledFrom(append([]int64{-1, 0}, fleetSizes...)).Draw(rt, "d")
				if rapid.IntRange(0, 3).Draw(rt, "randomSize") == 0 {
					d = int64(rapid.IntRange(1, 130).Draw(rt, "dRandom"))
				}
				rel := rapid.SampledFrom([]string{"room", "exact", "short"}).Draw(rt, "maxRel")
				switch rel {
				case "room":
					max = desired + d + int64(rapid.IntRange(1, 10).Draw(rt, "room"))
				case "exact":
					max = desired + d
				default:
					max = desired + d - 1
				}
				if max < desired {
					max = desired
				}
				dClass = rel
			} else {
				max = desired + int64(rapid.IntRange(0, 10).Draw(rt, "headroom"))
				head := max - desired
				dClass = rapid.SampledFrom([]string{"-1", "0", "1", "head-1", "head", "head+1", "large"}).Draw(rt, "dClass")
				d = map[string]int64{"-1": -1, "0": 0, "1": 1, "head-1": head - 1, "head": head, "head+1": head + 1, "large": head + 1000}[dClass]
			}
			instDelta := int64(rapid.SampledFrom([]int{0, 0, 0, -3, -1, 1, 2, 5}).Draw(rt, "instancesMinusDesired"))
			if desired+instDelta < 0 {
				instDelta = -desired
			}
			c, err := newAWSCase(min, desired, max, cfg, zones, desired+instDelta)
			if err != nil {
				rt.Fatalf("harness: %v", err)
			}
			c.a.Fleet = sim.FleetPlan{Split: rapid.IntRange(1, 4).Draw(rt, "split"), PageSize: rapid.SampledFrom([]int{1, 7, 50, 1000}).Draw(rt, "page"),
				ReadyAfter: rapid.SampledFrom([]time.Duration{0, time.Second, 3 * time.Second, 5 * time.Second}).Draw(rt, "readyAfter"), // + stagger (<= 4 s) stays below the shortest time-out (10 s)
				WithErrors: rapid.Bool().Draw(rt, "withErrors"), StaggerMod: rapid.SampledFrom([]int{0, 2, 3, 5}).Draw(rt, "stagger"),
				ErrCode: rapid.SampledFrom(sim.FleetErrorCodes).Draw(rt, "errCode"), LateTail: rapid.SampledFrom([]int{0, 0, 1, 5, 50, 99}).Draw(rt, "lateTail"),
				ServeFrom: rapid.IntRange(0, 7).Draw(rt, "serveFrom")} // which of the requested (subnet, type) pools has the capacity
			// some of the fleet's instances never come up (reclaimed, stopped by their own bootstrap, ...)
			neverReady := 0
			if fleet && d > 0 {
				neverReady = rapid.SampledFrom([]int{0, 0, 0, 0, 1, 2}).Draw(rt, "neverReady")
				if int64(neverReady) > d {
					neverReady = int(d)
				}
				c.a.Fleet.NeverReady = neverReady
				c.a.Fleet.GoneState = rapid.SampledFrom([]string{"", "stopped", "shutting-down", "terminated", "stopping"}).Draw(rt, "goneState")
			}
			if c.a.Fleet.LateTail > 0 && c.a.Fleet.ReadyAfter > 3*time.Second {
				c.a.Fleet.ReadyAfter = 3 * time.Second // ready-after + stagger (<= 4 s) + late tail (2 s) stays below the shortest time-out
			}
			// stale cache: the real desired capacity drifts after the provider's last refresh
			stale := rapid.IntRange(0, 4).Draw(rt, "stale") == 0
			if stale && c.asg.Desired > c.asg.Min {
				c.asg.Desired--
			} else {
				stale = false
			}
			// an earlier removal on the same provider object in the same scan (no refresh in between),
			// possibly cut short by a failing terminate call: the provider has seen every accepted
			// termination, so "current" is the desired capacity minus those
			removedEarlier := int64(0)
			if k := rapid.SampledFrom([]int{0, 0, 1, 2, 3}).Draw(rt, "earlierRemovals"); k > 0 && !stale && int64(len(c.asg.Instances)) >= int64(k) && desired-int64(k) >= min && desired > min {
				var ns []*v1.Node
				for _, id := range c.asg.Instances[:k] {
					ns = append(ns, &v1.Node{ObjectMeta: metav1.ObjectMeta{Name: "node-" + id}, Spec: v1.NodeSpec{ProviderID: c.a.Instances[id].ProviderID()}})
				}
				if failAt := rapid.IntRange(0, k).Draw(rt, "earlierFailAt"); failAt < k {
					c.j.Arm([]sim.Fault{{Kind: sim.ATerminateInASG, Nth: failAt}})
				}
				m0 := c.j.Mark()
				callTarget(rt, "C17", "DeleteNodes (earlier)", func() { _ = c.ng.DeleteNodes(ns...) })
				c.j.Disarm()
				for _, e := range c.j.Since(m0) {
					if e.Kind == sim.ATerminateInASG && e.OK() {
						removedEarlier++
					}
				}
				desired -= removedEarlier
				if fleet {
					max = max - 0
				}
			}
			// an earlier scale-up by a different amount on the same provider object (an earlier scan),
			// followed by the refresh every scan starts with
			if d0 := int64(rapid.SampledFrom([]int{0, 0, 1, 3, 21}).Draw(rt, "earlierScaleUp")); d0 > 0 && removedEarlier == 0 && !stale && desired+d0+d <= max-0 && d > 0 {
				savedPlan := c.a.Fleet
				c.a.Fleet = sim.FleetPlan{Split: 1, PageSize: 50}
				var e0 error
				callTarget(rt, "C17", "IncreaseSize (earlier)", func() { e0 = c.ng.IncreaseSize(d0) })
				c.a.Fleet = savedPlan
				if e0 != nil {
					rt.Fatalf("harness: earlier scale-up failed: %v", e0)
				}
				if err := c.prov.Refresh(); err != nil {
					rt.Fatalf("harness: refresh: %v", err)
				}
				desired = c.asg.Desired
			}
			mark := c.j.Mark()
			callTarget(rt, "C17", "IncreaseSize", func() { err = c.ng.IncreaseSize(d) })
			es := c.j.Since(mark)
			ws := writesOf(es)
			col.Eval(1)
			dump := dumpPath()
			desc := func() string {
				var b strings.Builder
				fmt.Fprintf(&b, "IncreaseSize(%d) on asg(min=%d current=%d max=%d, %d removed earlier in the same scan) fleet=%v cfg=%+v stale=%v -> err=%v\n", d, min, desired, max, removedEarlier, fleet, cfg.AWSConfig, stale, err)
				for _, e := range es {
					fmt.Fprintf(&b, "  %s\n", e.String())
				}
				return b.String()
			}
			rejected := d <= 0 || desired+d > max
			if rejected {
				if err == nil {
					fail(rt, dump, "C17:rejected-delta-accepted", "%s", desc())
				}
				if len(ws) > 0 {
					fail(rt, dump, "C17:write-on-rejected-delta", "%s", desc())
				}
				col.Nontrivial(fmt.Sprintf("rej|fleet=%v|%s|inst=%d", fleet, dClass, instDelta))
				return
			}
			if !fleet {
				if len(ws) != 1 || ws[0].Kind != sim.ASetDesired {
					fail(rt, dump, "C17:not-exactly-one-set-desired", "%s", desc())
				}
				w := ws[0]
				if w.ASG != cfg.GroupID || w.Value != desired+d || w.Flag == nil || *w.Flag {
					fail(rt, dump, "C17:wrong-set-desired-arguments", "expected SetDesiredCapacity(%s, %d, HonorCooldown=false)\n%s", cfg.GroupID, desired+d, desc())
				}
				if w.Value <= desired {
					fail(rt, dump, "C17:scale-up-lowers-desired", "%s", desc())
				}
				if (err == nil) != w.OK() {
					fail(rt, dump, "C17:result-mismatch", "cloud said %q but IncreaseSize returned %v\n%s", w.Err, err, desc())
				}
				if dClass == "1" || dClass == "head" || dClass == "head-1" || stale || instDelta != 0 {
					col.Nontrivial(fmt.Sprintf("plain|%s|stale=%v|inst=%d", dClass, stale, instDelta))
				}
				return
			}
			if neverReady > 0 {
				// all-or-nothing: the fleet did not come up completely, so nothing is attached and the caller is told
				attached := 0
				for _, w := range ws {
					if w.Kind == sim.AAttach && w.OK() {
						attached += len(w.IDs)
					}
				}
				if err == nil || attached > 0 {
					fail(rt, dump, "C17:fleet-not-all-or-nothing", "%d of %d instances never became running (reported as %q), yet %d were attached and IncreaseSize returned %v\n%s", neverReady, d, c.a.Fleet.GoneState, attached, err, desc())
				}
				col.Nontrivial(fmt.Sprintf("fleet-incomplete|%d|%d|%s", d, neverReady, c.a.Fleet.GoneState))
				return
			}
			// fleet mode
			var fleetE *sim.Entry
			var attaches []sim.Entry
			for i := range ws {
				switch ws[i].Kind {
				case sim.ACreateFleet:
					if fleetE != nil {
						fail(rt, dump, "C17:more-than-one-fleet-request", "%s", desc())
					}
					fleetE = &ws[i]
				case sim.AAttach:
					attaches = append(attaches, ws[i])
				default:
					fail(rt, dump, "C17:unexpected-write:"+ws[i].Kind, "%s", desc())
				}
			}
			if fleetE == nil {
				fail(rt, dump, "C17:no-fleet-request", "%s", desc())
			}
			fr := fleetE.FleetDetail
			life := cfg.AWSConfig.Lifecycle
			if life == "" {
				life = "on-demand"
			}
			if fr.Type != "instant" || fr.Total != d || fr.DefaultType != life {
				fail(rt, dump, "C17:fleet-type-or-total", "want instant/%d/%s got %+v\n%s", d, life, *fr, desc())
			}
			wantMin, otherMin := fr.OnDemandMin, fr.SpotMin
			if life == "spot" {
				wantMin, otherMin = fr.SpotMin, fr.OnDemandMin
			}
			if wantMin == nil || *wantMin != d {
				fail(rt, dump, "C17:fleet-not-all-or-nothing", "MinTargetCapacity of the %s block should be %d: %+v\n%s", life, d, *fr, desc())
			}
			if otherMin != nil {
				fail(rt, dump, "C17:fleet-wrong-lifecycle-block", "both option blocks present: %+v\n%s", *fr, desc())
			}
			if fr.TemplateID != cfg.AWSConfig.LaunchTemplateID || fr.TemplateVersion != cfg.AWSConfig.LaunchTemplateVersion || fr.Configs != 1 {
				fail(rt, dump, "C17:fleet-template", "%+v\n%s", *fr, desc())
			}
			var wantOv [][2]string
			for _, sn := range strings.Split(zones, ",") {
				if len(cfg.AWSConfig.InstanceTypeOverrides) == 0 {
					wantOv = append(wantOv, [2]string{sn, ""})
				}
				for _, it := range cfg.AWSConfig.InstanceTypeOverrides {
					wantOv = append(wantOv, [2]string{sn, it})
				}
			}
			got := append([][2]string{}, fr.Overrides...)
			key := func(o [2]string) string { return o[0] + "/" + o[1] }
			sort.Slice(got, func(i, j int) bool { return key(got[i]) < key(got[j]) })
			sort.Slice(wantOv, func(i, j int) bool { return key(wantOv[i]) < key(wantOv[j]) })
			if fmt.Sprint(got) != fmt.Sprint(wantOv) {
				fail(rt, dump, "C17:fleet-overrides", "want %v got %v\n%s", wantOv, got, desc())
			}
			if fr.Tagged != cfg.AWSConfig.ResourceTagging {
				fail(rt, dump, "C17:fleet-tagging", "%s", desc())
			}
			// attach: each acquired instance exactly once, <= 20 per call, all to this ASG
			seen := map[string]int{}
			for _, at := range attaches {
				if len(at.IDs) > 20 || len(at.IDs) == 0 {
					fail(rt, dump, "C17:attach-batch-size", "batch of %d\n%s", len(at.IDs), desc())
				}
				if at.ASG != cfg.GroupID {
					fail(rt, dump, "C17:attach-wrong-asg", "%s", desc())
				}
				for _, id := range at.IDs {
					seen[id]++
				}
			}
			for _, id := range fleetE.Returned {
				if seen[id] != 1 {
					fail(rt, dump, "C17:instance-not-attached-exactly-once", "instance %s attached %d times\n%s", id, seen[id], desc())
				}
			}
			if len(seen) != len(fleetE.Returned) {
				fail(rt, dump, "C17:attached-foreign-instance", "%s", desc())
			}
			if err != nil {
				fail(rt, dump, "C17:fleet-success-reported-as-error", "%s", desc())
			}
			if stale == false && c.asg.Desired != desired+d {
				fail(rt, dump, "C17:fleet-desired-after", "real desired %d, want %d\n%s", c.asg.Desired, desired+d, desc())
			}
			if d%20 != 0 || c.a.Fleet.Split > 1 || len(attaches) > 1 {
				col.Nontrivial(fmt.Sprintf("fleet|mod20=%d|batches=%d|split=%d|life=%s|ov=%d|sub=%d|%s", d%20, len(attaches), c.a.Fleet.Split, life, len(cfg.AWSConfig.InstanceTypeOverrides), strings.Count(zones, ",")+1, dClass))
				col.Sample(strings.Split(desc(), "\n"))
			}
		})
	})
}

// ---------------------------------------------------------------- C18

var c18Sizes = []int{1, 19, 20, 21, 40, 41, 999, 1000, 1001, 2000, 2001, 2500}

type fleetFailure struct {
	mode      string // "never-ready" | "status-error" | "attach"
	attachNth int
	termNth   int // -1 none
}

// fleetEnv: how the simulated services behave around the failure point
type fleetEnv struct {
	goneState string // state reported for instances that never become running ("" = pending)
	faultCode string // AWS error code of the injected failures ("" = InternalFailure)
	faultRuns int    // the failing call keeps failing this many times in a row (a throttled call that is retried)
}

func runFleetFailure(rt *rapid.T, col interface{ Eval(int) }, size int, cfg cloudprovider.NodeGroupConfig, zones string, split, page, stagger int, f fleetFailure, errCode string, lateTail int, env fleetEnv) (es []sim.Entry, fleetE *sim.Entry, err error, exited bool) {
	c, herr := newAWSCase(0, 3, int64(size)+10, cfg, zones)
	if herr != nil {
		rt.Fatalf("harness: %v", herr)
	}
	c.a.Fleet = sim.FleetPlan{Split: split, PageSize: page, StaggerMod: stagger, WithErrors: errCode != "", ErrCode: errCode, LateTail: lateTail, GoneState: env.goneState}
	var faults []sim.Fault
	switch f.mode {
	case "never-ready":
		c.a.Fleet.NeverReady = 1 + f.attachNth%size
	case "short-answer":
		c.a.Fleet.Mode, c.a.Fleet.PartialNum = 3, f.attachNth
	case "status-error":
		faults = append(faults, sim.Fault{Kind: sim.AStatusPages, Nth: -1})
	case "attach":
		faults = append(faults, sim.Fault{Kind: sim.AAttach, Nth: f.attachNth, Code: env.faultCode, Count: env.faultRuns})
	}
	if f.termNth >= 0 {
		faults = append(faults, sim.Fault{Kind: sim.ATerminateInst, Nth: f.termNth, Code: env.faultCode})
	}
	c.j.Arm(faults)
	mark := c.j.Mark()
	func() {
		defer func() {
			if r := recover(); r != nil {
				if strings.Contains(fmt.Sprintf("%T", r), "exitSentinel") {
					exited = true
					return
				}
				panic(r)
			}
		}()
		callTarget(rt, "C18", "IncreaseSize (fleet)", func() { err = c.ng.IncreaseSize(int64(size)) })
	}()
	es = c.j.Since(mark)
	for i := range es {
		if es[i].Kind == sim.ACreateFleet {
			fleetE = &es[i]
		}
	}
	col.Eval(1)
	return
}

// judgeFleetFailure applies the C18 set algebra to one failed fleet scale-up.
func judgeFleetFailure(size int, f fleetFailure, es []sim.Entry, fleetE *sim.Entry, err error) (sig, msg string, both bool) {
	if fleetE == nil {
		return "C18:no-fleet-request", "no CreateFleet call", false
	}
	acquired := map[string]bool{}
	for _, id := range fleetE.Returned {
		acquired[id] = true
	}
	attached, submitted := map[string]bool{}, map[string]bool{}
	for _, e := range es {
		switch e.Kind {
		case sim.AAttach:
			if e.OK() {
				for _, id := range e.IDs {
					attached[id] = true
				}
			}
		case sim.ATerminateInst:
			if len(e.IDs) > 1000 {
				return "C18:terminate-call-over-1000-ids", fmt.Sprintf("TerminateInstances call with %d instance ids", len(e.IDs)), false
			}
			for _, id := range e.IDs {
				submitted[id] = true
			}
		}
	}
	for id := range acquired {
		switch {
		case attached[id] && submitted[id]:
			return "C18:instance-attached-and-terminated", "instance " + id + " is attached to the ASG and submitted for termination", false
		case !attached[id] && !submitted[id]:
			return "C18:instance-leaked", "instance " + id + " is neither attached nor submitted for termination", false
		}
	}
	for id := range submitted {
		if !acquired[id] {
			return "C18:terminated-foreign-instance", "instance " + id + " was not acquired by this fleet request", false
		}
	}
	if f.mode == "none" || f.mode == "short-answer" {
		// nothing was made to fail (the answer may carry errors next to a complete set of instances)
		if err == nil && len(submitted) > 0 {
			return "C18:success-with-terminations", "IncreaseSize returned nil but submitted instances for termination", false
		}
		return "", "", false
	}
	if err == nil {
		return "C18:failure-not-reported", "IncreaseSize returned nil although the fleet scale-up failed", false
	}
	return "", "", len(attached) > 0 && len(submitted) > 0
}

func TestC18(t *testing.T) {
	col := newCollector(t, "C18", "fault enumeration: for each drawn fleet size every single failure point (never ready, readiness API failing, k-th AttachInstances failing for every k, each optionally combined with the j-th TerminateInstances failing); oracle = set algebra over recorded arguments; non-trivial = failure with both attached and terminated sets non-empty, or size > 1000; distinct by (size, failure point)")
	col.Exhaustive = false
	thorough := isThorough()
	rapid.Check(t, func(rt *rapid.T) {
		rapid.SyncTest(rt, func(rt *rapid.T) {
			col.Case()
			sizes := c18Sizes
			if !thorough {
				sizes = []int{1, 19, 20, 21, 40, 41, 1000, 1001, 2500}
			}
			size := rapid.SampledFrom(sizes).Draw(rt, "size")
			if rapid.IntRange(0, 2).Draw(rt, "randomSize") == 0 {
				size = rapid.IntRange(1, 300).Draw(rt, "sizeRandom")
			}
			cfg, zones := drawFleetCfg(rt, true)
			split := rapid.IntRange(1, 3).Draw(rt, "split")
			page := rapid.SampledFrom([]int{3, 50, 1000}).Draw(rt, "page")
			stagger := rapid.SampledFrom([]int{0, 0, 2, 3, 5}).Draw(rt, "stagger") // instances become running at different polls
			batches := (size + 19) / 20
			errCode := rapid.SampledFrom(append([]string{"", "", ""}, sim.FleetErrorCodes...)).Draw(rt, "errCode")
			lateTail := rapid.SampledFrom([]int{0, 0, 0, 1, 7, 50}).Draw(rt, "lateTail")
			env := fleetEnv{goneState: rapid.SampledFrom([]string{"", "", "stopped", "stopping", "shutting-down", "terminated"}).Draw(rt, "goneState"),
				faultCode: rapid.SampledFrom([]string{"", "", "Throttling", "RequestLimitExceeded", "ValidationError", "ThrottlingException"}).Draw(rt, "faultCode"),
				faultRuns: rapid.SampledFrom([]int{1, 1, 3, 5}).Draw(rt, "faultRuns")}
			points := []fleetFailure{{"none", 0, -1}}
			if size > 1 {
				// an answer that lists fewer instances than asked for, next to errors: what was acquired is still acquired
				points = append(points, fleetFailure{"short-answer", rapid.IntRange(1, size-1).Draw(rt, "shortAnswer"), -1})
			}
			for _, tn := range []int{-1, 0, 1, 2} {
				points = append(points, fleetFailure{"never-ready", rapid.IntRange(0, size-1).Draw(rt, "neverReady"), tn})
				points = append(points, fleetFailure{"status-error", 0, tn})
				for k := 0; k < batches; k++ {
					if tn > 0 && k%7 != 0 && k != batches-1 { // thin out the product with terminate failures
						continue
					}
					points = append(points, fleetFailure{"attach", k, tn})
				}
			}
			for _, f := range points {
				es, fleetE, err, exited := runFleetFailure(rt, col, size, cfg, zones, split, page, stagger, f, errCode, lateTail, env)
				if exited {
					fail(rt, dumpPath(), "C18:exit-after-one-failure", "size %d failure %+v: escalator exited after a single failed fleet scale-up", size, f)
				}
				sig, msg, both := judgeFleetFailure(size, f, es, fleetE, err)
				if sig != "" {
					if isKnown(sig) {
						col.KnownFinding(sig)
						continue
					}
					var b strings.Builder
					fmt.Fprintf(&b, "fleet size %d, failure point %+v: %s\n", size, f, msg)
					for _, e := range es {
						if e.Kind != sim.AStatusPages {
							fmt.Fprintf(&b, "  %s\n", e.String())
						}
					}
					fail(rt, dumpPath(), sig, "%s", b.String())
				}
				if both || size > 1000 {
					col.Nontrivial(fmt.Sprintf("fleetfail|%d|%s|%d|%d", size, f.mode, f.attachNth, f.termNth))
					if both && f.attachNth == 1 {
						col.Sample(fmt.Sprintf("size=%d failure=%+v err=%v calls=%d", size, f, err, len(es)))
					}
				}
			}
		})
	})
}

// TestC18Consecutive: three consecutive failed fleet scale-ups on one group object end in
// the documented exit; a success in between resets the count.
func TestC18Consecutive(t *testing.T) {
	col := newCollector(t, "C18", "sequences of fleet scale-ups (success / failure) on one provider object; the documented exit happens exactly at the third consecutive failure")
	rapid.Check(t, func(rt *rapid.T) {
		rapid.SyncTest(rt, func(rt *rapid.T) {
			col.Case()
			cfg, zones := drawFleetCfg(rt, true)
			c, herr := newAWSCase(0, 2, 20000, cfg, zones)
			if herr != nil {
				rt.Fatalf("harness: %v", herr)
			}
			huge := rapid.IntRange(0, 5).Draw(rt, "hugeFleets") == 0 // fleets beyond one terminate batch, with the clean-up calls themselves failing
			consecutive := 0
			n := rapid.IntRange(3, 8).Draw(rt, "rounds")
			pattern := ""
			for i := 0; i < n; i++ {
				failing := rapid.IntRange(0, 2).Draw(rt, "fail") > 0
				c.a.Fleet = sim.FleetPlan{Split: rapid.IntRange(1, 3).Draw(rt, "split"), PageSize: 50}
				if failing {
					c.a.Fleet.NeverReady = 1
					pattern += "F"
				} else {
					pattern += "s"
				}
				if err := c.prov.Refresh(); err != nil {
					rt.Fatalf("harness: refresh: %v", err)
				}
				exited := false
				var err error
				d := int64(rapid.IntRange(1, 45).Draw(rt, "d"))
				if rapid.IntRange(0, 2).Draw(rt, "fullBatches") == 0 {
					d = int64(rapid.SampledFrom([]int{20, 40, 60}).Draw(rt, "dBatches")) // goes out in full attach batches only
				}
				if huge {
					d = int64(rapid.SampledFrom([]int{600, 1001, 1500}).Draw(rt, "dHuge"))
					if failing && rapid.Bool().Draw(rt, "cleanupFails") {
						c.j.Arm([]sim.Fault{{Kind: sim.ATerminateInst, Nth: -1, Code: rapid.SampledFrom([]string{"", "RequestLimitExceeded"}).Draw(rt, "code")}})
					}
				}
				mark := c.j.Mark()
				func() {
					defer func() {
						if r := recover(); r != nil {
							if strings.Contains(fmt.Sprintf("%T", r), "exitSentinel") {
								exited = true
								return
							}
							panic(r)
						}
					}()
					callTarget(rt, "C18", "IncreaseSize (fleet)", func() { err = c.ng.IncreaseSize(d) })
				}()
				c.j.Disarm()
				col.Eval(1)
				if !failing {
					// a successful round terminates nothing and no call ever carries more than 1000 ids
					es := c.j.Since(mark)
					var fleetE *sim.Entry
					for k := range es {
						if es[k].Kind == sim.ACreateFleet {
							fleetE = &es[k]
						}
					}
					if sig, msg, _ := judgeFleetFailure(int(d), fleetFailure{mode: "none"}, es, fleetE, err); sig != "" && !isKnown(sig) {
						fail(rt, dumpPath(), sig, "pattern %s: %s", pattern, msg)
					}
				}
				if failing {
					// whatever the attempt number, every acquired instance is attached or submitted for termination
					es := c.j.Since(mark)
					var fleetE *sim.Entry
					for k := range es {
						if es[k].Kind == sim.ACreateFleet {
							fleetE = &es[k]
						}
					}
					errForJudge := err
					if exited {
						errForJudge = fmt.Errorf("exit")
					}
					if sig, msg, _ := judgeFleetFailure(int(d), fleetFailure{mode: "never-ready"}, es, fleetE, errForJudge); sig != "" && !isKnown(sig) {
						fail(rt, dumpPath(), sig, "pattern %s (exited=%v): %s", pattern, exited, msg)
					}
				}
				if failing {
					consecutive++
				} else {
					consecutive = 0
				}
				wantExit := consecutive >= 3
				if exited != wantExit {
					fail(rt, dumpPath(), "C18:consecutive-failure-exit", "pattern %s: exited=%v want %v", pattern, exited, wantExit)
				}
				if exited {
					break
				}
				if failing == (err == nil) {
					fail(rt, dumpPath(), "C18:failure-not-reported", "pattern %s: failing=%v err=%v", pattern, failing, err)
				}
			}
			col.Nontrivial("consecutive|" + pattern)
		})
	})
}

// ---------------------------------------------------------------- C19 (direct half)

func TestC19Direct(t *testing.T) {
	col := newCollector(t, "C19", "direct: DeleteNodes on the real AWS provider over the simulated AWS: every ASG state (min, desired, instance set), node lists with members / foreign nodes / duplicates at every position, k-th terminate failing, fresh or stale cache; oracle = exact expected call prefix; non-trivial = batch >= 2 with a failure or foreign node strictly inside, a minimum refusal, or a duplicate; distinct by (n, first bad position, kind, refusal)")
	rapid.Check(t, func(rt *rapid.T) {
		rapid.SyncTest(rt, func(rt *rapid.T) {
			col.Case()
			min := int64(rapid.IntRange(0, 4).Draw(rt, "min"))
			desired := min + int64(rapid.IntRange(0, 8).Draw(rt, "gap"))
			cfg := cloudprovider.NodeGroupConfig{Name: "grp", GroupID: "asg-x"}
			lingering := int64(rapid.SampledFrom([]int{0, 0, 0, 1, 2, 4}).Draw(rt, "lingeringInstances"))
			c, herr := newAWSCase(min, desired, desired+5, cfg, "subnet-a", desired+lingering)
			if herr != nil {
				rt.Fatalf("harness: %v", herr)
			}
			// some instances of another group, and some that left this group after the last refresh
			other := c.a.AddASG("asg-other", 0, 10, 2, "subnet-a")
			var foreignIDs []*sim.Instance
			for i := 0; i < 2; i++ {
				foreignIDs = append(foreignIDs, c.a.NewInstance(other.Name))
			}
			// the other group may be registered with the same provider object (escalator manages both)
			if rapid.Bool().Draw(rt, "siblingRegistered") {
				p2, err := awsprov.VerifNewCloudProvider(c.a.AutoScaling(), c.a.EC2(), cfg, cloudprovider.NodeGroupConfig{Name: "other", GroupID: other.Name})
				if err != nil {
					rt.Fatalf("harness: %v", err)
				}
				ng2, ok := p2.GetNodeGroup(cfg.GroupID)
				if !ok {
					rt.Fatalf("harness: group not registered")
				}
				c.prov, c.ng = p2, ng2
			}
			nodeFor := func(inst *sim.Instance, name string) *v1.Node {
				return &v1.Node{ObjectMeta: metav1.ObjectMeta{Name: name}, Spec: v1.NodeSpec{ProviderID: inst.ProviderID()}}
			}
			// an earlier life of the same provider object: a removal or membership question, then the
			// group changes (replacement, re-ordering, same size) and the provider refreshes
			warm := rapid.SampledFrom([]string{"", "", "belongs", "delete"}).Draw(rt, "earlierCall")
			if warm != "" && len(c.asg.Instances) > 0 {
				first := c.a.Instances[c.asg.Instances[rapid.IntRange(0, len(c.asg.Instances)-1).Draw(rt, "earlierNode")]]
				switch warm {
				case "belongs":
					callTarget(rt, "C19", "Belongs", func() { _ = c.ng.Belongs(nodeFor(first, "earlier")) })
				case "delete":
					callTarget(rt, "C19", "DeleteNodes (earlier)", func() { _ = c.ng.DeleteNodes(nodeFor(first, "earlier")) })
				}
				switch rapid.SampledFrom([]string{"replace", "rotate", "none"}).Draw(rt, "groupChange") {
				case "replace":
					if len(c.asg.Instances) > 0 {
						c.a.Kill(c.asg.Instances[0])
						c.a.NewInstance(c.asg.Name)
					}
				case "rotate":
					if n := len(c.asg.Instances); n > 1 {
						c.asg.Instances = append(c.asg.Instances[1:], c.asg.Instances[0])
					}
				}
				if c.asg.Desired < min {
					c.asg.Desired = min
				}
				if err := c.prov.Refresh(); err != nil {
					rt.Fatalf("harness: refresh: %v", err)
				}
				desired = c.asg.Desired
				lingering = int64(len(c.asg.Instances)) - desired
			}
			// an earlier batch on the same provider object in the same scan, cut short by a failing
			// terminate call, and no refresh afterwards
			if warm == "" && rapid.IntRange(0, 3).Draw(rt, "earlierPartialBatch") == 0 && len(c.asg.Instances) >= 3 && desired-3 >= min {
				var ns []*v1.Node
				for _, id := range c.asg.Instances[:3] {
					ns = append(ns, nodeFor(c.a.Instances[id], "earlier-"+id))
				}
				c.j.Arm([]sim.Fault{{Kind: sim.ATerminateInASG, Nth: rapid.IntRange(1, 2).Draw(rt, "earlierFailAt")}})
				m0 := c.j.Mark()
				callTarget(rt, "C19", "DeleteNodes (earlier, partial)", func() { _ = c.ng.DeleteNodes(ns...) })
				c.j.Disarm()
				for _, e := range c.j.Since(m0) {
					if e.Kind == sim.ATerminateInASG && e.OK() {
						desired--
					}
				}
				warm = "partial-batch"
			}
			members := append([]string{}, c.asg.Instances...)
			n := rapid.IntRange(0, 6).Draw(rt, "nodes")
			var nodes []*v1.Node
			var kinds []string
			for i := 0; i < n; i++ {
				kind := rapid.SampledFrom([]string{"member", "member", "member", "member", "foreign", "dup", "empty-id", "respelled"}).Draw(rt, "kind")
				switch {
				case kind == "respelled" && len(members) > 0: // a member's instance id under a provider id the group does not report
					id := members[rapid.IntRange(0, len(members)-1).Draw(rt, "which")]
					form := rapid.SampledFrom([]string{"aws:///eu-west-9z/%s", "aws:////%s", "aws:///%s/%s", "aws://us-east-1a/x/%s"}).Draw(rt, "spelling")
					pid := fmt.Sprintf(form, id)
					if strings.Count(form, "%s") == 2 {
						pid = fmt.Sprintf(form, strings.ToUpper(c.a.Instances[id].AZ), id)
					}
					nodes = append(nodes, &v1.Node{ObjectMeta: metav1.ObjectMeta{Name: "respelled-" + id}, Spec: v1.NodeSpec{ProviderID: pid}})
					kind = "foreign"
				case kind == "member" && len(members) > 0:
					id := members[rapid.IntRange(0, len(members)-1).Draw(rt, "which")]
					nodes = append(nodes, nodeFor(c.a.Instances[id], "node-"+id))
				case kind == "dup" && len(nodes) > 0:
					nodes = append(nodes, nodes[rapid.IntRange(0, len(nodes)-1).Draw(rt, "dupOf")])
				case kind == "empty-id":
					nodes = append(nodes, &v1.Node{ObjectMeta: metav1.ObjectMeta{Name: fmt.Sprintf("noid-%d", i)}})
				default:
					kind = "foreign"
					nodes = append(nodes, nodeFor(foreignIDs[i%2], fmt.Sprintf("foreign-%d", i)))
				}
				kinds = append(kinds, kind)
			}
			failNth := -1
			if rapid.IntRange(0, 2).Draw(rt, "injectFailure") == 0 {
				failNth = rapid.IntRange(0, 5).Draw(rt, "failNth")
				c.j.Arm([]sim.Fault{{Kind: sim.ATerminateInASG, Nth: failNth}})
			}
			// stale cache: the group's real minimum was raised after the last refresh
			stale := rapid.IntRange(0, 5).Draw(rt, "stale") == 0
			if stale {
				c.asg.Min = min + 1
				if c.asg.Desired < c.asg.Min {
					c.asg.Desired = c.asg.Min
				}
			}
			mark := c.j.Mark()
			var err error
			callTarget(rt, "C19", "DeleteNodes", func() { err = c.ng.DeleteNodes(nodes...) })
			es := c.j.Since(mark)
			col.Eval(1)
			desc := func() string {
				var b strings.Builder
				fmt.Fprintf(&b, "DeleteNodes(%v) kinds=%v on asg(min=%d cachedDesired=%d instances=%v) earlier=%q failNth=%d stale=%v -> err=%v (%T)\n", nodeNames(nodes), kinds, min, desired, members, warm, failNth, stale, err, err)
				for _, e := range es {
					fmt.Fprintf(&b, "  %s\n", e.String())
				}
				return b.String()
			}
			var calls []sim.Entry
			for _, e := range es {
				if e.IsAWSWrite() || e.IsK8sWrite() {
					if e.Kind != sim.ATerminateInASG {
						fail(rt, dumpPath(), "C19:unexpected-write:"+e.Kind, "%s", desc())
					}
					calls = append(calls, e)
				}
			}
			// expected behaviour
			refused := desired <= min || desired-int64(len(nodes)) < min
			memberSet := map[string]bool{}
			byProviderID := map[string]string{}
			for _, id := range members {
				memberSet[id] = true
				byProviderID[c.a.Instances[id].ProviderID()] = id
			}
			var want []string
			wantErr, wantTyped := "", false
			if refused {
				wantErr = "refused"
			} else {
				gone := map[string]bool{}
				realDesired := c.asg.Desired + int64(0)
				_ = realDesired
				for i, nd := range nodes {
					// membership is by the full provider id the group's instances report: another
					// spelling of a member's instance id (other zone segment, no zone) is not a member
					id := byProviderID[nd.Spec.ProviderID]
					if !memberSet[id] {
						wantErr, wantTyped = "not-in-group", true
						break
					}
					want = append(want, id)
					if len(want)-1 == failNth || gone[id] || (stale && false) {
						wantErr = "terminate failed"
						break
					}
					gone[id] = true
					_ = i
				}
			}
			// compare the calls with the expected prefix (a stale minimum can make the cloud refuse earlier)
			for i, cl := range calls {
				if i >= len(want) {
					fail(rt, dumpPath(), "C19:terminate-beyond-expected-prefix", "expected calls for %v only\n%s", want, desc())
				}
				if len(cl.IDs) != 1 || cl.IDs[0] != want[i] {
					fail(rt, dumpPath(), "C19:terminated-wrong-instance", "call %d terminates %v, expected %s\n%s", i, cl.IDs, want[i], desc())
				}
				if cl.Flag == nil || !*cl.Flag {
					fail(rt, dumpPath(), "C19:terminate-without-decrement", "%s", desc())
				}
				if cl.OK() && cl.PreDesired-1 < cl.PreMin {
					fail(rt, dumpPath(), "C19:terminate-below-asg-min", "%s", desc())
				}
			}
			cloudRefused := len(calls) > 0 && !calls[len(calls)-1].OK()
			if len(calls) < len(want) && !cloudRefused {
				fail(rt, dumpPath(), "C19:missing-terminate", "expected calls for %v\n%s", want, desc())
			}
			if refused && len(calls) > 0 {
				fail(rt, dumpPath(), "C19:calls-despite-minimum-refusal", "%s", desc())
			}
			_, typed := err.(*cloudprovider.NodeNotInNodeGroup)
			switch {
			case cloudRefused:
				if err == nil || typed {
					fail(rt, dumpPath(), "C19:failed-terminate-not-reported", "%s", desc())
				}
			case wantErr == "" && err != nil:
				fail(rt, dumpPath(), "C19:error-without-cause", "%s", desc())
			case wantErr != "" && err == nil:
				fail(rt, dumpPath(), "C19:missing-error", "expected %s\n%s", wantErr, desc())
			case wantTyped != typed:
				fail(rt, dumpPath(), "C19:not-in-group-error-type", "expected typed=%v got %T\n%s", wantTyped, err, desc())
			}
			accepted := 0
			for _, cl := range calls {
				if cl.OK() {
					accepted++
				}
			}
			if int64(accepted) > desired-min {
				fail(rt, dumpPath(), "C19:more-than-desired-minus-min", "%s", desc())
			}
			firstBad := -1
			for i, k := range kinds {
				if k != "member" {
					firstBad = i
					break
				}
			}
			if (n >= 2 && (firstBad > 0 || (failNth > 0 && failNth < n))) || refused && n > 0 || stale {
				col.Nontrivial(fmt.Sprintf("del|n=%d|firstBad=%d|fail=%d|refused=%v|stale=%v|typed=%v|linger=%d", n, firstBad, failNth, refused, stale, typed, lingering))
				col.Sample(strings.Split(desc(), "\n"))
			}
		})
	})
}

func nodeNames(ns []*v1.Node) []string {
	var out []string
	for _, n := range ns {
		out = append(out, n.Name)
	}
	return out
}

// ---------------------------------------------------------------- C04 (provider-side half)

// TestC04Direct: the provider's own refusal above the ASG maximum. IncreaseSize(d) on the real AWS
// provider, SetDesiredCapacity and fleet mode alike: when current + d exceeds the group's maximum
// nothing is asked of the cloud; otherwise no call carries a target above the maximum and the
// group's desired capacity never ends above it.
func TestC04Direct(t *testing.T) {
	col := newCollector(t, "C04", "direct: IncreaseSize(d) on the real AWS provider (plain and fleet mode) for every relation of current + d to the ASG maximum; oracle: over the maximum => error and no AWS write; otherwise every requested target <= maximum and the desired capacity ends <= maximum; non-trivial = d on the boundary (head-1, head, head+1) or fleet mode; distinct by (mode, relation, d)")
	rapid.Check(t, func(rt *rapid.T) {
		rapid.SyncTest(rt, func(rt *rapid.T) {
			col.Case()
			fleet := rapid.Bool().Draw(rt, "fleet")
			cfg, zones := drawFleetCfg(rt, fleet)
			min := int64(rapid.IntRange(0, 4).Draw(rt, "min"))
			desired := min + int64(rapid.IntRange(0, 12).Draw(rt, "gap"))
			head := int64(rapid.SampledFrom([]int{0, 1, 2, 5, 19, 20, 21, 40}).Draw(rt, "headroom"))
			max := desired + head
			rel := rapid.SampledFrom([]string{"head-1", "head", "head+1", "head+2", "1", "head+100"}).Draw(rt, "d")
			d := map[string]int64{"head-1": head - 1, "head": head, "head+1": head + 1, "head+2": head + 2, "1": 1, "head+100": head + 100}[rel]
			if d <= 0 {
				d = 1
			}
			c, err := newAWSCase(min, desired, max, cfg, zones)
			if err != nil {
				rt.Fatalf("harness: %v", err)
			}
			c.a.Fleet = sim.FleetPlan{Split: rapid.IntRange(1, 2).Draw(rt, "split"), PageSize: 50}
			mark := c.j.Mark()
			var ierr error
			callTarget(rt, "C04", "IncreaseSize", func() { ierr = c.ng.IncreaseSize(d) })
			es := c.j.Since(mark)
			col.Eval(1)
			desc := func() string {
				var b strings.Builder
				fmt.Fprintf(&b, "IncreaseSize(%d) on asg(min=%d desired=%d max=%d) fleet=%v -> err=%v\n", d, min, desired, max, fleet, ierr)
				for _, e := range es {
					fmt.Fprintf(&b, "  %s\n", e.String())
				}
				return b.String()
			}
			over := desired+d > max
			var asked int64
			for _, e := range writesOf(es) {
				if over {
					fail(rt, dumpPath(), "C04:provider-write-above-cloud-maximum", "current + d exceeds the group's maximum, yet the cloud is asked: %s", desc())
				}
				switch e.Kind {
				case sim.ASetDesired:
					if e.Value > max {
						fail(rt, dumpPath(), "C04:target-above-bound", "SetDesiredCapacity(%d) above the maximum %d\n%s", e.Value, max, desc())
					}
				case sim.ACreateFleet:
					asked += e.Value
					if desired+asked > max {
						fail(rt, dumpPath(), "C04:target-above-bound", "fleet requests add up to %d on top of %d, maximum %d\n%s", asked, desired, max, desc())
					}
				}
			}
			if over && ierr == nil {
				fail(rt, dumpPath(), "C04:over-maximum-accepted", "%s", desc())
			}
			if c.asg.Desired > max {
				fail(rt, dumpPath(), "C04:target-above-bound", "desired capacity ends at %d, maximum %d\n%s", c.asg.Desired, max, desc())
			}
			if fleet || strings.HasPrefix(rel, "head") {
				col.Nontrivial(fmt.Sprintf("c04direct|fleet=%v|%s|%d", fleet, rel, d))
				col.Sample(strings.Split(desc(), "\n"))
			}
		})
	})
}
