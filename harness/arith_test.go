//go:build verif

package verifharness

import (
	"fmt"
	"math"
	"math/big"
	"runtime/debug"
	"strings"
	"testing"

	"github.com/atlassian/escalator/pkg/controller"
	"github.com/atlassian/escalator/pkg/k8s"
	v1 "k8s.io/api/core/v1"
	"k8s.io/apimachinery/pkg/api/resource"
	metav1 "k8s.io/apimachinery/pkg/apis/meta/v1"
	"pgregory.net/rapid"

	"verifharness/ref"
	"verifharness/stats"
)

// ---------------------------------------------------------------- C05 (direct half)

type deltaCase struct {
	n      int64 // untainted equal-size nodes
	cC, cM int64 // node size (millicores, bytes)
	rC, rM int64 // total request
	T      int64
	cached bool // from zero: a node size was observed earlier
}

func (c deltaCase) String() string {
	return fmt.Sprintf("n=%d size=(%dm,%dB) request=(%dm,%dB) threshold=%d cached=%v", c.n, c.cC, c.cM, c.rC, c.rM, c.T, c.cached)
}

var dummyNodes = func() []*v1.Node {
	out := make([]*v1.Node, 6000)
	for i := range out {
		out[i] = &v1.Node{}
	}
	return out
}()

// judgeDelta runs the two real arithmetic helpers and applies the exact oracle.
// It returns "" (fine / not applicable) or a signature.
func judgeDelta(c deltaCase) (sig, msg, class string) {
	defer func() {
		if r := recover(); r != nil { // a panic in the arithmetic produces no scale-up at all
			sig, msg = "C05:panic-in-code-under-test", fmt.Sprintf("%v: panic: %v\n%s", c, r, debug.Stack())
		}
	}()
	cpuReq, memReq := *resource.NewMilliQuantity(c.rC, resource.DecimalSI), *resource.NewQuantity(c.rM, resource.BinarySI)
	cpuCap, memCap := *resource.NewMilliQuantity(c.n*c.cC, resource.DecimalSI), *resource.NewQuantity(c.n*c.cM, resource.BinarySI)
	cpuPct, memPct, err := controller.VerifCalcPercentUsage(cpuReq, memReq, cpuCap, memCap, c.n)
	if err != nil {
		return "C05:percent-error", fmt.Sprintf("%v: %v", c, err), ""
	}
	bigr := func(v int64) *big.Int { return big.NewInt(v) }
	// exact: does utilisation exceed the threshold?
	exceeds := func(r, cap int64) int {
		return new(big.Int).Mul(bigr(r), bigr(100)).Cmp(new(big.Int).Mul(bigr(cap), bigr(c.T)))
	}
	var cachedC, cachedM resource.Quantity
	if c.n == 0 {
		if c.rC == 0 && c.rM == 0 {
			return "", "", ""
		}
		if cpuPct != math.MaxFloat64 || memPct != math.MaxFloat64 {
			return "C05:from-zero-sentinel", fmt.Sprintf("%v: percent = %v, %v", c, cpuPct, memPct), ""
		}
		if c.cached {
			cachedC, cachedM = *resource.NewMilliQuantity(c.cC, resource.DecimalSI), *resource.NewQuantity(c.cM, resource.BinarySI)
		}
	} else {
		ec, em := exceeds(c.rC, c.n*c.cC), exceeds(c.rM, c.n*c.cM)
		if ec <= 0 && em <= 0 {
			return "", "", "" // not above the threshold: the helper is not consulted
		}
		if math.Max(cpuPct, memPct) <= float64(c.T) {
			return "", "", "float-edge" // exact says above, float says not: band question (C06), not size
		}
	}
	d, err := controller.VerifCalcScaleUpDelta(dummyNodes[:c.n], cpuPct, memPct, cpuReq, memReq, int(c.T), cachedC, cachedM)
	if err != nil {
		return "C05:delta-error", fmt.Sprintf("%v: %v", c, err), ""
	}
	if c.n == 0 && !c.cached {
		if d != 1 {
			return "C05:from-zero-no-cache-not-one", fmt.Sprintf("%v: delta %d", c, d), ""
		}
		return "", "", "zero-nocache"
	}
	need := ref.Need(bigr(c.rC), bigr(c.rM), c.n, bigr(c.cC), bigr(c.cM), c.T)
	class = "mid"
	// request exactly on a whole-node boundary?
	for _, p := range [][2]int64{{c.rC, c.cC}, {c.rM, c.cM}} {
		num := new(big.Int).Mul(bigr(p[0]), bigr(100))
		den := new(big.Int).Mul(bigr(p[1]), bigr(c.T))
		if new(big.Int).Rem(num, den).Sign() == 0 && p[0] > 0 {
			class = "boundary"
		}
	}
	if c.n == 0 {
		class = "zero-" + class
	}
	// within float resolution of a whole-node boundary (request exceeds the boundary by less
	// than 2^-40 relative)? escalator's percent/ceil arithmetic is float64
	ulp := false
	for _, p := range [][2]int64{{c.rC, c.cC}, {c.rM, c.cM}} {
		num := new(big.Int).Mul(bigr(p[0]), bigr(100))
		den := new(big.Int).Mul(bigr(p[1]), bigr(c.T))
		rem := new(big.Int).Rem(num, den)
		if rem.Sign() > 0 && new(big.Int).Lsh(rem, 40).Cmp(num) < 0 {
			ulp = true
		}
	}
	switch {
	case int64(d) == need-1 && ulp:
		return "C05:insufficient-by-one-within-float-resolution-of-boundary", fmt.Sprintf("%v: delta %d, least sufficient %d (cpu%%=%v mem%%=%v)", c, d, need, cpuPct, memPct), class
	case int64(d) < need:
		return "C05:insufficient", fmt.Sprintf("%v: delta %d, least sufficient %d (cpu%%=%v mem%%=%v)", c, d, need, cpuPct, memPct), class
	case int64(d) > need+1:
		return "C05:over-by-two", fmt.Sprintf("%v: delta %d, least sufficient %d (cpu%%=%v mem%%=%v)", c, d, need, cpuPct, memPct), class
	}
	if int64(d) == need+1 {
		class += "+1"
	}
	return "", "", class
}

var gridT = []int64{1, 2, 3, 7, 10, 33, 50, 69, 70, 71, 99, 100, 101, 150}
var gridCPU = []int64{1, 3, 1000, 3920, 96000}
var gridMem = []int64{1, 1<<20 + 1, 16 << 30, 768 << 30}

func handleDelta(t interface{ Fatalf(string, ...any) }, col *stats.Collector, c deltaCase) {
	sig, msg, class := judgeDelta(c)
	col.Eval(1)
	if class != "" {
		col.Class("delta:" + class)
	}
	if sig != "" {
		if isKnown(sig) {
			col.KnownFinding(sig)
			return
		}
		if p := dumpPath(); p != "" {
			_ = writeFile(p, "VIOLATION "+sig+"\n"+msg+"\n")
		}
		t.Fatalf("VIOLATION %s\n%s", sig, msg)
	}
}

// TestC05Grid sweeps a bounded grid completely (no randomness).
func TestC05Grid(t *testing.T) {
	col := newCollector(t, "C05", "bounded-exhaustive grid over (n <= 16, threshold, node size, request at every whole-node boundary -1/0/+1 up to 40 nodes' worth, CPU- or memory-bound, other resource at 0 or equal share) plus the from-zero branch; non-trivial = above the threshold; distinct by the full tuple")
	col.Exhaustive = true
	maxN := int64(16)
	if !isThorough() {
		maxN = 9
	}
	seen := 0
	for n := int64(0); n <= maxN; n++ {
		for _, T := range gridT {
			for _, cC := range gridCPU {
				for _, cM := range gridMem {
					for k := n; k <= 40; k += 1 {
						if k == 0 {
							continue
						}
						for _, off := range []int64{-1, 0, 1} {
							// request that makes exactly k nodes sufficient, +-1 unit
							rC := T*k*cC/100 + off
							rM := T*k*cM/100 + off
							if rC < 0 || rM < 0 {
								continue
							}
							cases := []deltaCase{
								{n: n, cC: cC, cM: cM, rC: rC, rM: 0, T: T, cached: true},
								{n: n, cC: cC, cM: cM, rC: 0, rM: rM, T: T, cached: true},
								{n: n, cC: cC, cM: cM, rC: rC, rM: rM, T: T, cached: true},
							}
							if n == 0 && k == 1 {
								cases = append(cases, deltaCase{n: 0, cC: cC, cM: cM, rC: rC + 1, rM: rM, T: T, cached: false})
							}
							for _, c := range cases {
								handleDelta(t, col, c)
								seen++
								if seen%4099 == 0 {
									col.Nontrivial(c.String())
									if seen%400000 < 4099 {
										col.Sample(c.String())
									}
								}
							}
						}
					}
				}
			}
		}
	}
	col.Cases = int64(seen)
	col.Add("grid_points", seen)
}

func TestC05Random(t *testing.T) {
	col := newCollector(t, "C05", "random (n <= 5000, node sizes up to 2^40 millicores / 2^42 bytes, thresholds 1..200, requests near whole-node boundaries or free); non-trivial = above the threshold; distinct by the full tuple")
	rapid.Check(t, func(rt *rapid.T) {
		col.Case()
		c := deltaCase{cached: rapid.IntRange(0, 9).Draw(rt, "cached") > 0}
		c.n = int64(rapid.SampledFrom([]int{0, 1, 2, 3, 10, 100, 999, 5000}).Draw(rt, "n"))
		if rapid.Bool().Draw(rt, "nRandom") {
			c.n = int64(rapid.IntRange(0, 5000).Draw(rt, "nAny"))
		}
		c.T = int64(rapid.IntRange(1, 200).Draw(rt, "T"))
		c.cC = rapid.Int64Range(1, 1<<22).Draw(rt, "cC")
		c.cM = rapid.Int64Range(1, 1<<40).Draw(rt, "cM")
		if rapid.IntRange(0, 9).Draw(rt, "tinySizes") == 0 { // a node reporting next to nothing (kubelet reserved almost everything)
			c.cC = rapid.SampledFrom([]int64{1, 1, 2, 3, 9, 99}).Draw(rt, "cCtiny")
			c.cM = rapid.SampledFrom([]int64{1, 2, 1000, 1 << 30}).Draw(rt, "cMtiny")
		} else if rapid.Bool().Draw(rt, "niceSizes") {
			c.cC = rapid.SampledFrom([]int64{1000, 2000, 3920, 7910, 16000, 96000, 192000}).Draw(rt, "cCnice")
			c.cM = rapid.SampledFrom([]int64{1 << 30, 7 << 29, 16 << 30, 61 << 30, 768 << 30, 15_000_000_000}).Draw(rt, "cMnice")
		}
		req := func(size int64, label string) int64 {
			switch rapid.IntRange(0, 3).Draw(rt, label+"Mode") {
			case 0:
				return 0
			case 1: // near a whole-node boundary
				k := c.n + int64(rapid.IntRange(0, 60).Draw(rt, label+"K"))
				v := new(big.Int).Mul(big.NewInt(c.T*k), big.NewInt(size))
				v.Quo(v, big.NewInt(100))
				v.Add(v, big.NewInt(int64(rapid.IntRange(-2, 2).Draw(rt, label+"Off"))))
				if v.Sign() < 0 || !v.IsInt64() || v.Int64() > 1<<58 {
					return 0
				}
				return v.Int64()
			default:
				max := new(big.Int).Mul(big.NewInt(size), big.NewInt(c.n+50))
				if !max.IsInt64() || max.Int64() > 1<<58 {
					return rapid.Int64Range(0, 1<<58).Draw(rt, label+"Free")
				}
				return rapid.Int64Range(0, max.Int64()).Draw(rt, label+"Free")
			}
		}
		c.rC, c.rM = req(c.cC, "rC"), req(c.cM, "rM")
		// magnitudes: the code converts memory to int64 milli-bytes
		if c.rM > (1<<62)/1000 || c.n*c.cM > (1<<62)/1000 || c.rC > 1<<50 {
			return
		}
		handleDelta(rt, col, c)
		col.Nontrivial(c.String())
		col.Sample(c.String())
	})
}

// ---------------------------------------------------------------- C13

type genQty struct {
	s     string
	exact *big.Rat // in base units (cores / bytes)
}

var cpuSuffix = []string{"m", "m", "", "", "k"}
var memSuffix = []string{"", "k", "M", "G", "Ki", "Mi", "Gi", "Ti", "m", "e3", "E6"}

func suffixValue(suf string) *big.Rat {
	switch suf {
	case "m":
		return big.NewRat(1, 1000)
	case "":
		return big.NewRat(1, 1)
	case "k", "e3":
		return big.NewRat(1000, 1)
	case "M", "E6":
		return big.NewRat(1_000_000, 1)
	case "G":
		return big.NewRat(1_000_000_000, 1)
	case "Ki":
		return big.NewRat(1<<10, 1)
	case "Mi":
		return big.NewRat(1<<20, 1)
	case "Gi":
		return big.NewRat(1<<30, 1)
	case "Ti":
		return big.NewRat(1<<40, 1)
	}
	panic(suf)
}

func drawQty(rt *rapid.T, label string, sufs []string, maxMant int) genQty {
	suf := rapid.SampledFrom(sufs).Draw(rt, label+"Suf")
	mant := rapid.IntRange(0, maxMant).Draw(rt, label+"Mant")
	dec := 0
	if !strings.HasPrefix(suf, "e") && !strings.HasPrefix(suf, "E") && rapid.IntRange(0, 3).Draw(rt, label+"Frac") == 0 {
		dec = rapid.IntRange(1, 3).Draw(rt, label+"Dec")
	}
	s := fmt.Sprint(mant)
	if dec > 0 {
		for len(s) <= dec {
			s = "0" + s
		}
		s = s[:len(s)-dec] + "." + s[len(s)-dec:]
	}
	exact := new(big.Rat).Mul(big.NewRat(int64(mant), int64(math.Pow10(dec))), suffixValue(suf))
	return genQty{s + suf, exact}
}

// bounds of the quantity in the unit escalator works in (cpu: thousandths, memory: units)
func (q genQty) bounds(scale int64) (lo, hi *big.Int) {
	v := new(big.Rat).Mul(q.exact, big.NewRat(scale, 1))
	lo = new(big.Int).Quo(v.Num(), v.Denom())
	hi = new(big.Int).Set(lo)
	if new(big.Int).Rem(v.Num(), v.Denom()).Sign() != 0 {
		hi.Add(hi, big.NewInt(1))
	}
	return
}

type genRes struct{ cpu, mem *genQty }

func (g genRes) list() v1.ResourceList {
	rl := v1.ResourceList{}
	if g.cpu != nil {
		rl[v1.ResourceCPU] = resource.MustParse(g.cpu.s)
	}
	if g.mem != nil {
		rl[v1.ResourceMemory] = resource.MustParse(g.mem.s)
	}
	return rl
}

func drawRes(rt *rapid.T, label string) genRes {
	var g genRes
	if rapid.IntRange(0, 5).Draw(rt, label+"HasCPU") > 0 {
		q := drawQty(rt, label+"CPU", cpuSuffix, 4000)
		g.cpu = &q
	}
	if rapid.IntRange(0, 5).Draw(rt, label+"HasMem") > 0 {
		q := drawQty(rt, label+"Mem", memSuffix, 3000)
		g.mem = &q
	}
	return g
}

type interval struct{ lo, hi *big.Int }

func zeroIv() interval { return interval{new(big.Int), new(big.Int)} }
func (a interval) add(b interval) interval {
	return interval{new(big.Int).Add(a.lo, b.lo), new(big.Int).Add(a.hi, b.hi)}
}
func (a interval) max(b interval) interval {
	r := interval{a.lo, a.hi}
	if b.lo.Cmp(r.lo) > 0 {
		r.lo = b.lo
	}
	if b.hi.Cmp(r.hi) > 0 {
		r.hi = b.hi
	}
	return r
}
func (a interval) has(v int64) bool {
	x := big.NewInt(v)
	return a.lo.Cmp(x) <= 0 && x.Cmp(a.hi) <= 0
}
func ivOf(q *genQty, scale int64) interval {
	if q == nil {
		return zeroIv()
	}
	lo, hi := q.bounds(scale)
	return interval{lo, hi}
}

type genPod struct {
	containers []genRes
	inits      []genRes
	overhead   *genRes
	pending    bool
}

func (p genPod) exact() (cpu, mem interval) {
	cpu, mem = zeroIv(), zeroIv()
	for _, c := range p.containers {
		cpu, mem = cpu.add(ivOf(c.cpu, 1000)), mem.add(ivOf(c.mem, 1))
	}
	for _, c := range p.inits {
		cpu, mem = cpu.max(ivOf(c.cpu, 1000)), mem.max(ivOf(c.mem, 1))
	}
	if p.overhead != nil {
		cpu, mem = cpu.add(ivOf(p.overhead.cpu, 1000)), mem.add(ivOf(p.overhead.mem, 1))
	}
	return
}

func (p genPod) build(i int) *v1.Pod {
	pod := &v1.Pod{ObjectMeta: metav1.ObjectMeta{Name: fmt.Sprintf("p%d", i)}}
	for j, c := range p.containers {
		pod.Spec.Containers = append(pod.Spec.Containers, v1.Container{Name: fmt.Sprintf("c%d", j), Resources: v1.ResourceRequirements{Requests: c.list()}})
	}
	for j, c := range p.inits {
		pod.Spec.InitContainers = append(pod.Spec.InitContainers, v1.Container{Name: fmt.Sprintf("i%d", j), Resources: v1.ResourceRequirements{Requests: c.list()}})
	}
	if p.overhead != nil {
		pod.Spec.Overhead = p.overhead.list()
	}
	if p.pending {
		pod.Status.Phase = v1.PodPending
	} else {
		pod.Status.Phase = v1.PodRunning
	}
	return pod
}

func TestC13(t *testing.T) {
	col := newCollector(t, "C13", "direct: generated pods (0-4 containers, 0-3 init containers, optional overhead, missing requests, quantities as (mantissa, suffix, decimals) so the exact rational is known) and nodes; exact big-integer totals vs the exported calculators; then every list is permuted; non-trivial = a pod whose init container exceeds the container sum in one resource but not the other, or overhead, or mixed suffixes, with a non-identity permutation; distinct by (shape flags, counts)")
	rapid.Check(t, func(rt *rapid.T) {
		col.Case()
		np := rapid.IntRange(0, 6).Draw(rt, "pods")
		var gps []genPod
		initCross, hasOver := false, false
		suffixes := map[string]bool{}
		for i := 0; i < np; i++ {
			var gp genPod
			for j, nc := 0, rapid.IntRange(0, 4).Draw(rt, "containers"); j < nc; j++ {
				gp.containers = append(gp.containers, drawRes(rt, "c"))
			}
			for j, ni := 0, rapid.IntRange(0, 3).Draw(rt, "inits")/2; j < ni; j++ {
				gp.inits = append(gp.inits, drawRes(rt, "i"))
			}
			if rapid.IntRange(0, 4).Draw(rt, "hasOverhead") == 0 {
				r := drawRes(rt, "o")
				gp.overhead = &r
				hasOver = true
			}
			gp.pending = rapid.Bool().Draw(rt, "pending")
			// init > sum in one resource and < in the other?
			sc, sm := zeroIv(), zeroIv()
			for _, c := range gp.containers {
				sc, sm = sc.add(ivOf(c.cpu, 1000)), sm.add(ivOf(c.mem, 1))
			}
			for _, c := range gp.inits {
				ic, im := ivOf(c.cpu, 1000), ivOf(c.mem, 1)
				if (ic.lo.Cmp(sc.hi) > 0) != (im.lo.Cmp(sm.hi) > 0) {
					initCross = true
				}
			}
			for _, c := range append(append([]genRes{}, gp.containers...), gp.inits...) {
				for _, q := range []*genQty{c.cpu, c.mem} {
					if q != nil {
						suffixes[strings.TrimLeft(q.s, "0123456789.")] = true
					}
				}
			}
			gps = append(gps, gp)
		}
		nn := rapid.IntRange(0, 5).Draw(rt, "nodes")
		var nodeRes []genRes
		for i := 0; i < nn; i++ {
			r := genRes{}
			if rapid.IntRange(0, 9).Draw(rt, "nodeHasAlloc") > 0 {
				c := drawQty(rt, "nodeCPU", []string{"", "m", ""}, 96000)
				m := drawQty(rt, "nodeMem", []string{"Ki", "Mi", "Gi", "", "M", "G"}, 4000)
				r.cpu, r.mem = &c, &m
			}
			nodeRes = append(nodeRes, r)
		}
		var pods []*v1.Pod
		wantC, wantM := zeroIv(), zeroIv()
		for i, gp := range gps {
			pods = append(pods, gp.build(i))
			c, m := gp.exact()
			wantC, wantM = wantC.add(c), wantM.add(m)
		}
		var nodes []*v1.Node
		capC, capM := zeroIv(), zeroIv()
		for i, r := range nodeRes {
			n := &v1.Node{ObjectMeta: metav1.ObjectMeta{Name: fmt.Sprintf("n%d", i)}}
			if r.cpu != nil {
				n.Status.Allocatable = r.list()
				// capacity differs from allocatable on purpose
				n.Status.Capacity = v1.ResourceList{v1.ResourceCPU: resource.MustParse("1000"), v1.ResourceMemory: resource.MustParse("1Pi")}
			}
			nodes = append(nodes, n)
			capC, capM = capC.add(ivOf(r.cpu, 1000)), capM.add(ivOf(r.mem, 1))
		}
		desc := func() string {
			var b strings.Builder
			for i, gp := range gps {
				fmt.Fprintf(&b, "pod %d pending=%v:", i, gp.pending)
				for _, c := range gp.containers {
					fmt.Fprintf(&b, " c(%s,%s)", qs(c.cpu), qs(c.mem))
				}
				for _, c := range gp.inits {
					fmt.Fprintf(&b, " init(%s,%s)", qs(c.cpu), qs(c.mem))
				}
				if gp.overhead != nil {
					fmt.Fprintf(&b, " overhead(%s,%s)", qs(gp.overhead.cpu), qs(gp.overhead.mem))
				}
				b.WriteString("\n")
			}
			for i, r := range nodeRes {
				fmt.Fprintf(&b, "node %d alloc(%s,%s)\n", i, qs(r.cpu), qs(r.mem))
			}
			return b.String()
		}
		var usage k8s.PodRequestedUsage
		var capa k8s.NodeAvailableCapacity
		var err, err2 error
		callTarget(rt, "C13", "request/capacity calculators", func() {
			usage, err = k8s.CalculatePodsRequestedUsage(pods)
			capa, err2 = k8s.CalculateNodesCapacity(nodes, pods)
		})
		if err != nil {
			fail(rt, dumpPath(), "C13:request-error", "%v\n%s", err, desc())
		}
		if err2 != nil {
			fail(rt, dumpPath(), "C13:capacity-error", "%v\n%s", err2, desc())
		}
		col.Eval(1)
		if !wantC.has(usage.Total.MilliCPU) || !wantM.has(usage.Total.Memory) {
			fail(rt, dumpPath(), "C13:request-total", "requests: got cpu=%d mem=%d, exact cpu in [%v,%v] mem in [%v,%v]\n%s", usage.Total.MilliCPU, usage.Total.Memory, wantC.lo, wantC.hi, wantM.lo, wantM.hi, desc())
		}
		if !capC.has(capa.Total.MilliCPU) || !capM.has(capa.Total.Memory) {
			fail(rt, dumpPath(), "C13:capacity-total", "capacity: got cpu=%d mem=%d, exact cpu in [%v,%v] mem in [%v,%v]\n%s", capa.Total.MilliCPU, capa.Total.Memory, capC.lo, capC.hi, capM.lo, capM.hi, desc())
		}
		// percent
		cq, mq := usage.Total.GetCPUQuantity(), usage.Total.GetMemoryQuantity()
		ccq, cmq := capa.Total.GetCPUQuantity(), capa.Total.GetMemoryQuantity()
		if capa.Total.Memory < (1<<62)/1000 && usage.Total.Memory < (1<<62)/1000 {
			cp, mp, perr := controller.VerifCalcPercentUsage(*cq, *mq, *ccq, *cmq, int64(len(nodes)))
			uc, um, kc, km := usage.Total.MilliCPU, usage.Total.Memory, capa.Total.MilliCPU, capa.Total.Memory
			switch {
			case uc == 0 && um == 0 && kc == 0 && km == 0 && len(nodes) == 0:
				if perr != nil || cp != 0 || mp != 0 {
					fail(rt, dumpPath(), "C13:percent-all-zero", "got %v %v %v\n%s", cp, mp, perr, desc())
				}
			case kc == 0 || km == 0:
				if len(nodes) == 0 {
					if perr != nil || cp != math.MaxFloat64 || mp != math.MaxFloat64 {
						fail(rt, dumpPath(), "C13:percent-from-zero", "got %v %v %v\n%s", cp, mp, perr, desc())
					}
				} else if perr == nil {
					fail(rt, dumpPath(), "C13:percent-zero-capacity-no-error", "got %v %v\n%s", cp, mp, desc())
				}
			default:
				if perr != nil {
					fail(rt, dumpPath(), "C13:percent-error", "%v\n%s", perr, desc())
				}
				for i, x := range [][3]float64{{float64(uc), float64(kc), cp}, {float64(um), float64(km), mp}} {
					if sig, msg := judgePercent(int64(x[0]), int64(x[1]), x[2], []int64{1, 1000}[i]); sig != "" {
						fail(rt, dumpPath(), sig, "%s\n%s", msg, desc())
					}
				}
			}
		}
		// permutation invariance
		identity := true
		pp := pods
		if len(pods) > 1 {
			pp = rapid.Permutation(pods).Draw(rt, "podPerm")
			for i := range pp {
				if pp[i] != pods[i] {
					identity = false
				}
			}
		}
		pn := nodes
		if len(nodes) > 1 {
			pn = rapid.Permutation(nodes).Draw(rt, "nodePerm")
			for i := range pn {
				if pn[i] != nodes[i] {
					identity = false
				}
			}
		}
		for _, p := range pp {
			if len(p.Spec.Containers) > 1 {
				p.Spec.Containers = rapid.Permutation(p.Spec.Containers).Draw(rt, "contPerm")
			}
			if len(p.Spec.InitContainers) > 1 {
				p.Spec.InitContainers = rapid.Permutation(p.Spec.InitContainers).Draw(rt, "initPerm")
			}
		}
		usage2, _ := k8s.CalculatePodsRequestedUsage(pp)
		capa2, _ := k8s.CalculateNodesCapacity(pn, pp)
		if usage2.Total != usage.Total || capa2.Total != capa.Total ||
			usage2.LargestPendingCPU.MilliCPU != usage.LargestPendingCPU.MilliCPU || usage2.LargestPendingMemory.Memory != usage.LargestPendingMemory.Memory ||
			capa2.LargestAvailableCPU.MilliCPU != capa.LargestAvailableCPU.MilliCPU || capa2.LargestAvailableMemory.Memory != capa.LargestAvailableMemory.Memory {
			fail(rt, dumpPath(), "C13:order-dependent", "before %+v %+v\nafter  %+v %+v\n%s", usage, capa, usage2, capa2, desc())
		}
		if (initCross || hasOver || len(suffixes) >= 3) && !identity {
			col.Nontrivial(fmt.Sprintf("c13|cross=%v|over=%v|suffixes=%d|pods=%d|nodes=%d", initCross, hasOver, len(suffixes), len(pods), len(nodes)))
			col.Sample(strings.Split(desc(), "\n"))
		}
	})
}

func qs(q *genQty) string {
	if q == nil {
		return "-"
	}
	return q.s
}

// judgePercent compares a utilisation percentage with the exact rational 100*req/cap. Where
// escalator's inputs are exactly representable in float64 (in its milli-units: scale 1 for
// CPU, 1000 for memory) the result must be the float64 nearest to the exact value, so that a
// utilisation equal to a threshold compares as equal; beyond that, within 1e-12 relative.
func judgePercent(req, cap int64, got float64, scale int64) (sig, msg string) {
	exact := new(big.Rat).SetFrac(new(big.Int).Mul(big.NewInt(req), big.NewInt(100)), big.NewInt(cap))
	want, _ := exact.Float64()
	if ref.FloatSafe(big.NewInt(req), big.NewInt(cap), scale) {
		if got != want {
			return "C13:percent-not-nearest-float", fmt.Sprintf("100*%d/%d: got %v, the exact value is %v (%s)", req, cap, got, want, exact.FloatString(20))
		}
		return "", ""
	}
	if math.Abs(got-want) > 1e-12*math.Max(1, math.Abs(want)) {
		return "C13:percent-value", fmt.Sprintf("100*%d/%d: got %v want %v", req, cap, got, want)
	}
	return "", ""
}

// TestC13Percent: utilisation values that are exactly representable (in particular whole
// percentages, which is what thresholds are compared with) at every magnitude, CPU- or
// memory-bound.
func TestC13Percent(t *testing.T) {
	col := newCollector(t, "C13", "direct: requests and capacities constructed so that 100*request/capacity is a whole percentage (or k/8 of one) at magnitudes from millicores to hundreds of TiB, in units of 1, Ki, Mi, Gi and decimal multiples; the result must be the nearest float64 whenever the inputs are exactly representable in float64; non-trivial = totals above 2^53/100 milli-units; distinct by the tuple")
	rapid.Check(t, func(rt *rapid.T) {
		col.Case()
		mem := rapid.Bool().Draw(rt, "memory")
		unit := int64(1)
		if mem {
			unit = rapid.SampledFrom([]int64{1, 1000, 1 << 10, 1_000_000, 1 << 20, 1_000_000_000, 1 << 30}).Draw(rt, "unit")
		}
		k := rapid.Int64Range(1, 4000).Draw(rt, "k")
		eighths := rapid.Int64Range(1, 8*160).Draw(rt, "eighths")
		if rapid.IntRange(0, 2).Draw(rt, "whole") > 0 {
			eighths = 8 * rapid.Int64Range(1, 160).Draw(rt, "percent")
		}
		cap := 800 * k * unit
		req := eighths * k * unit
		if mem && (req > (1<<62)/1000 || cap > (1<<62)/1000) {
			return
		}
		var cpuReq, memReq, cpuCap, memCap resource.Quantity
		other := rapid.Int64Range(0, 100).Draw(rt, "otherPercent")
		if mem {
			memReq, memCap = *resource.NewQuantity(req, resource.BinarySI), *resource.NewQuantity(cap, resource.BinarySI)
			cpuReq, cpuCap = *resource.NewMilliQuantity(other*10, resource.DecimalSI), *resource.NewMilliQuantity(1000, resource.DecimalSI)
		} else {
			cpuReq, cpuCap = *resource.NewMilliQuantity(req, resource.DecimalSI), *resource.NewMilliQuantity(cap, resource.DecimalSI)
			memReq, memCap = *resource.NewQuantity(other*1000, resource.BinarySI), *resource.NewQuantity(100000, resource.BinarySI)
		}
		var cp, mp float64
		var err error
		callTarget(rt, "C13", "calcPercentUsage", func() {
			cp, mp, err = controller.VerifCalcPercentUsage(cpuReq, memReq, cpuCap, memCap, 3)
		})
		col.Eval(1)
		if err != nil {
			fail(rt, dumpPath(), "C13:percent-error", "%v", err)
		}
		got, scale := cp, int64(1)
		if mem {
			got, scale = mp, 1000
		}
		if sig, msg := judgePercent(req, cap, got, scale); sig != "" {
			fail(rt, dumpPath(), sig, "%s", msg)
		}
		big100 := new(big.Int).Mul(big.NewInt(req), big.NewInt(100*scale))
		if big100.BitLen() > 53 {
			col.Nontrivial(fmt.Sprintf("pct|%d|%d|%v", req, cap, mem))
			col.Sample(fmt.Sprintf("100*%d/%d (memory=%v) = %v", req, cap, mem, got))
		}
	})
}
