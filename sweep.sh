#!/bin/bash
# usage: ./sweep.sh <tier> <seed>...   runs every check at each VERIF_SEED on the current tree, prints anything that is not OK
cd "$(dirname "$0")"
TIER=$1; shift
for s in "$@"; do
  for c in C01 C02 C03 C04 C05 C06 C07 C08 C09 C10 C11 C12 C13 C14 C15 C16 C17 C18 C19 C20; do
    out=$(VERIF_SEED=$s ./check $c $TIER 2>&1); rc=$?
    if [ $rc -ne 0 ]; then echo "=== seed $s $c exit $rc"; echo "$out" | grep -v "draw " | tail -40; else echo "seed $s $c ok $(echo "$out" | tail -1 | grep -o '[0-9.]*s$')"; fi
  done
done
