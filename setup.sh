#!/bin/sh
# Verifies the toolchain and warms the build cache (the first cold build takes 60-90 s).
set -e
cd "$(dirname "$0")/harness"
export GOFLAGS=-mod=mod GOPROXY=off GOSUMDB=off GOTOOLCHAIN=local
GO=/opt/veriftools/go1.26.8/bin/go
test -x "$GO" || { echo "missing $GO"; exit 1; }
mkdir -p ../.build
"$GO" test -c -tags verif -o ../.build/warm.test . 
rm -f ../.build/warm.test
echo setup ok
