#!/usr/bin/env python3
"""Regenerates MANIFEST.json from the per-property table below (keeps it valid and in one place)."""
import json
import subprocess

HOOK_COMMITS = ["581a990"]

ENGINE_NOTE = ("real Controller.RunOnce (and everything below it, including the whole AWS provider) runs over a simulated Kubernetes API, "
               "a stateful simulated AWS that records every argument, and virtual time (testing/synctest); NewController/Builder.Build are mirrored by verif-tagged hooks; NewClient's informer wiring and cmd/main.go's validation gate are executed by checks of their own (TestWiring*, TestC16Gate)")

P = {
 "C01": ("exploration", "rapid state machine (histories) + journal monitor",
         "Generated histories (pods, cordons, external taints of any value, targeted clock steps around grace boundaries, restarts, stale caches, API faults) drive the real RunOnce; every accepted instance termination and node deletion is judged against the view of that scan by an only-if monitor built from the property text. Exploration, not proof: bounded histories and sampled seeds.",
         "4 C01"),
 "C02": ("exploration", "rapid state machine + lock model reconstructed from the journal",
         "Histories place scans at offsets {0, cd-1ns, cd, cd+1ns, ...} from an accepted scale-up while the environment makes the cluster look as bad as possible; any write inside the window is a violation, and the first scan at/after the cool-down is judged by the C06 band oracle so a lock that outlives its cool-down fails too.",
         "4 C02"),
 "C03": ("exploration", "rapid state machine + journal monitor",
         "Every scan: number of nodes that received the escalator taint versus untainted uncordoned nodes in the view and the effective minimum (configured or auto-discovered from the simulated ASG); below-minimum scans must taint nothing.",
         "4 C03"),
 "C04": ("exploration", "rapid state machine + journal monitor over recorded AWS arguments",
         "max_nodes and the cloud maximum are drawn independently; every SetDesiredCapacity value / fleet target is compared with min(max_nodes, cloud max), and when the exact need exceeds the headroom the request must land exactly on the bound (or not be made).",
         "4 C04"),
 "C05": ("exploration", "bounded-exhaustive grid + rapid random inputs against an exact integer oracle; end-to-end histories",
         "The two real arithmetic helpers are swept over a grid (every whole-node boundary -1/0/+1) and random inputs and compared with math/big: sufficient, and at most one above the least sufficient count; the same is checked end-to-end on scale-up scans (untaints + requested increase).",
         "4 C05"),
 "C06": ("exploration", "rapid state machine with constructed utilisation classes + exact-rational band oracle",
         "Pod sets are constructed so that the exact utilisation lands below/on/between/above each threshold (+-1 unit); the scan's taints, untaints and cloud requests must match the band computed in big-integer arithmetic; documented scale_on_starve / max_node_age triggers are judged by a reference of the documented conditions.",
         "4 C06"),
 "C07": ("exploration", "rapid state machine + journal monitor (set/order relations, exact remainder)",
         "Scale-up scans with tainted pools of every size and age order, failed untaints and same-scan force removals: no cloud increase while a reusable node stays tainted, newest first, and the requested increase equals need minus untainted measured against the simulated ASG's real desired capacity.",
         "4 C07"),
 "C08": ("exploration", "rapid state machine + pairwise order oracle; large-group variant; production-wiring round trip",
         "Scale-down scans over generated creation timestamps (ties, identical, reversed), list orders and failing writes: no node left untainted is strictly older than a tainted one, except nodes with a failed attempt.",
         "4 C08"),
 "C09": ("exploration", "rapid state machine + journal monitor + capacity gauge comparison + metamorphic twin run",
         "No mutating call targets a node that is cordoned in the scan's view; the capacity gauges equal the exact allocatable sum over untainted uncordoned nodes; a twin world in which a cordoned node's allocatable is changed produces the same actions; a group whose only nodes in service are cordoned scales up from zero as if they were not there.",
         "4 C09"),
 "C10": ("exploration", "rapid state machine + journal monitor + metamorphic twin run",
         "No removal of a node carrying a non-empty no-delete annotation (unless force-tainted); a twin run without the annotation shows identical tainting/untainting/cloud requests and removed(with) is a superset of removed(without) minus the node.",
         "4 C10"),
 "C11": ("exploration", "rapid state machine driving every decision branch of a dry group + empty-journal oracle + twin run",
         "Group 0 is always dry (option or global flag); the journal of mutating calls attributable to it must be empty for every branch (branch coverage is measured and reported); a twin run with the flag flipped leaves the other groups' journals identical.",
         "4 C11"),
 "C12": ("exploration", "rapid state machine with 2-3 groups + target monitor + metamorphic twin run",
         "Every write made while a group is processed targets that group's nodes / ASG; a twin world differing only inside another group yields the same journal for this group; non-fatal failures in one group do not stop later groups.",
         "4 C12"),
 "C13": ("exploration", "rapid generated pods/nodes with known exact rationals + permutation metamorphic relation",
         "Quantities are generated as (mantissa, suffix, decimals) so the exact value is known without asking resource.Quantity; totals are compared with math/big sums, percentages within 1e-12 relative, and every list is permuted (results must be identical). Request and capacity gauges are checked after engine scans too, and in scans where cpu and memory alone fall into different bands the decision must follow the larger one.",
         "4 C13"),
 "C14": ("exploration", "exhaustive small-scope enumeration + rapid deeper shapes against an independent predicate + production-wiring round trip",
         "6 000+ pod shapes and 10 node label maps are enumerated completely through the exported filter constructors and the real filtered listers; deeper random shapes beyond. Exhaustive over the stated finite scope only.",
         "4 C14"),
 "C15": ("exploration", "rapid direct calls + history monitor comparing the PUT body with the stored object",
         "Arbitrary node objects, stale or fresh caller copies and injected GET/PUT failures: the object sent equals the stored one plus/minus exactly the escalator taint; an already tainted node is never re-stamped (direct and along histories).",
         "4 C15"),
 "C16": ("exploration", "exhaustive per-conjunct grids + rapid full-product sampling + YAML/JSON round trip + generated files through the real cmd/main.go gate + native fuzzing (thorough)",
         "accepted => every invariant (each invariant evaluated independently of the validator); YAML-decoded = JSON-decoded = source for every documented key, documents larger than the sniff buffer included. Exhaustive over the stated grids only.",
         "4 C16"),
 "C17": ("exploration", "rapid direct calls on the real AWS provider + argument oracle; history monitor on the absolute-set rule",
         "IncreaseSize(d) for all boundary relations of (desired, max, d) and fleet sizes around the 20-batch limit: exactly one SetDesiredCapacity(current+d), or one all-or-nothing CreateFleet(d) whose instances are each attached exactly once in calls of <= 20 (the simulated EC2 counts capacity in units of the serving override's weight, so d units must be d instances); rejected deltas make no write. Along controller histories with provider rebuilds and external resizes every accepted SetDesiredCapacity equals the real desired capacity at that moment plus the delta asked for.",
         "4 C17"),
 "C18": ("fault_enumeration", "enumeration of every single failure point per fleet size + set algebra over recorded arguments",
         "For each fleet size every failure point (never ready, readiness API failing, k-th attach for every k, optionally with the j-th terminate failing, an answer listing fewer instances than asked for) is executed; attached and submitted-for-termination must partition the acquired instances, each terminate call carries <= 1000 ids, the failure is reported. Engine histories check that no lock is taken after a failed fleet scale-up.",
         "4 C18"),
 "C19": ("fault_enumeration", "rapid direct calls with the k-th terminate failing + exact expected call prefix; history monitor for ordering",
         "DeleteNodes over every ASG state and node list (members, foreign, duplicates, at every position) with the k-th terminate failing: calls are exactly the expected prefix with decrement, refusals make no call, foreign nodes give the typed error; along histories node deletions follow a fully accepted batch and a not-in-group answer ends the scan.",
         "4 C19"),
 "C20": ("fault_enumeration", "rapid chaos histories (odd objects, faults at drawn call indices) + per-index fault enumeration on twin worlds",
         "Malformed nodes/pods, absurd taint values and failures of every Kubernetes/AWS call kind: RunOnce must not panic or hang, returns only documented errors, and the next fault-free scan behaves as the band oracle demands.",
         "4 C20"),
}

LEVEL_NOTE = "trusted base: " + ENGINE_NOTE + "; the simulated AWS encodes the AWS API reference only as far as escalator can observe it; search, not proof"


def main():
    props = [json.loads(l) for l in open("/verif/properties.jsonl")]
    m = {
        "version": 1,
        "setup_cmd": "./setup.sh",
        "hooks": {
            "guard": "verif",
            "enable": "go test -tags verif (module /verif/harness replaces github.com/atlassian/escalator => /repo; go1.26.8 via GOTOOLCHAIN=local)",
            "baseline_off_cmd": "cd /repo && go test -vet=off -count=1 ./...",
            "source_commits": HOOK_COMMITS,
            "add_only": True,
        },
        "engines": [{
            "name": "harness",
            "path": "harness",
            "serves_properties": sorted(P),
            "kind_free_text": "Go test binary driven by pgregory.net/rapid v1.3.0: " + ENGINE_NOTE,
        }],
        "checks": [],
        "not_applicable": [],
        "notes": "All checks are property-based tests / fuzzing (generated inputs or histories against an explicit oracle). known_findings.json lists repaired (fixed) and recorded (open) defects; see DESIGN.md sections 5 and 10.",
    }
    for p in props:
        pid = p["id"]
        if pid not in P:
            m["not_applicable"].append({"property_id": pid, "reason": "no check registered"})
            continue
        level, tech, text, ref = P[pid]
        m["checks"].append({
            "property_id": pid,
            "quick_cmd": "./check %s quick" % pid,
            "thorough_cmd": "./check %s thorough" % pid,
            "evidence_file": "evidence/%s.json" % pid,
            "replay_cmd_template": "./check %s --replay {path}" % pid,
            "engine": "harness",
            "level_claimed": {"category": level, "text": text, "design_ref": "DESIGN.md section " + ref},
            "level_note": LEVEL_NOTE,
            "technique": "property-based testing: " + tech,
        })
    json.dump(m, open("/verif/MANIFEST.json", "w"), indent=1)
    print("MANIFEST.json written: %d checks, %d not applicable" % (len(m["checks"]), len(m["not_applicable"])))


if __name__ == "__main__":
    main()
