# Per-property check configuration for ./check.
# tests: list of Go test functions; per tier: number of rapid cases, shards (processes), average steps per history.

def hist(name, q=1000, t=30000, shards=14, steps=30, tsteps=40, qtimeout=900, ttimeout=7200):
    return {"name": name,
            "quick": {"checks": q, "shards": 1, "steps": steps, "timeout": qtimeout},
            "thorough": {"checks": t, "shards": shards, "steps": tsteps, "timeout": ttimeout}}

def direct(name, q=2000, t=500000, shards=14, qtimeout=900, ttimeout=7200):
    return {"name": name,
            "quick": {"checks": q, "shards": 1, "timeout": qtimeout},
            "thorough": {"checks": t, "shards": shards, "timeout": ttimeout}}

def det(name):
    """deterministic enumeration (no random draws): one run per tier"""
    return {"name": name, "deterministic": True,
            "quick": {"checks": 1, "shards": 1, "timeout": 600}, "thorough": {"checks": 1, "shards": 1, "timeout": 1800}}

COMMON_ASSUMPTIONS = [
    "simulated AWS (harness/sim/aws.go) follows the AWS API reference only as far as escalator can observe it",
    "in the history checks NewController/NewClient/Builder.Build are mirrored by the verif-tagged hooks; NewClient's informer wiring is executed by the TestWiring* checks",
    "escalator is compiled with go1.26.8 (testing/synctest virtual time)",
]

CHECKS = {
    "C01": {"level": "exploration", "tests": [hist("TestC01"), hist("TestC01Big", q=300, t=6000, steps=8, tsteps=10), direct("TestWiringC01", q=25, t=150, shards=4)], "assumptions": COMMON_ASSUMPTIONS},
    "C02": {"level": "exploration", "tests": [hist("TestC02")], "assumptions": COMMON_ASSUMPTIONS},
    "C03": {"level": "exploration", "tests": [hist("TestC03"), hist("TestC03Big", q=300, t=6000, steps=8, tsteps=10)], "assumptions": COMMON_ASSUMPTIONS},
    "C04": {"level": "exploration", "tests": [hist("TestC04"), direct("TestC04Direct", q=2000, t=200000), hist("TestC04Big", q=300, t=6000, steps=8, tsteps=10)], "assumptions": COMMON_ASSUMPTIONS},
    "C05": {"level": "exploration", "tests": [
        det("TestC05Grid"),
        direct("TestC05Random", q=100000, t=20000000), hist("TestC05History"), hist("TestC05HistoryBig", q=300, t=6000, steps=8, tsteps=10), direct("TestWiringC05", q=25, t=150, shards=4)], "assumptions": COMMON_ASSUMPTIONS},
    "C06": {"level": "exploration", "tests": [hist("TestC06"), hist("TestC06Big", q=300, t=6000, steps=8, tsteps=10)], "assumptions": COMMON_ASSUMPTIONS},
    "C07": {"level": "exploration", "tests": [hist("TestC07"), hist("TestC07Big", q=300, t=6000, steps=8, tsteps=10)], "assumptions": COMMON_ASSUMPTIONS},
    "C08": {"level": "exploration", "tests": [hist("TestC08"), hist("TestC08Big", q=300, t=6000, steps=8, tsteps=10), direct("TestWiringC08", q=25, t=150, shards=4)], "assumptions": COMMON_ASSUMPTIONS},
    "C09": {"level": "exploration", "tests": [hist("TestC09"), hist("TestC09Twin", q=400, t=10000), hist("TestC09Big", q=300, t=6000, steps=8, tsteps=10), direct("TestWiringC09", q=25, t=150, shards=4)], "assumptions": COMMON_ASSUMPTIONS},
    "C10": {"level": "exploration", "tests": [hist("TestC10"), hist("TestC10Twin", q=400, t=10000), hist("TestC10Big", q=300, t=6000, steps=8, tsteps=10), direct("TestWiringC10", q=25, t=150, shards=4)], "assumptions": COMMON_ASSUMPTIONS},
    "C11": {"level": "exploration", "tests": [hist("TestC11"), hist("TestC11Twin", q=400, t=10000)], "assumptions": COMMON_ASSUMPTIONS},
    "C12": {"level": "exploration", "tests": [hist("TestC12"), hist("TestC12Twin", q=800, t=14000), hist("TestC12Big", q=300, t=6000, steps=8, tsteps=10)], "assumptions": COMMON_ASSUMPTIONS},
    "C13": {"level": "exploration", "tests": [direct("TestC13", q=20000, t=2000000), direct("TestC13Percent", q=50000, t=5000000), hist("TestC13History", q=500, t=15000), hist("TestC13HistoryBig", q=300, t=6000, steps=8, tsteps=10), direct("TestWiringC13", q=25, t=150, shards=4)], "assumptions": COMMON_ASSUMPTIONS},
    "C14": {"level": "exploration", "tests": [det("TestC14"), direct("TestC14Random", q=20000, t=3000000), hist("TestC14History", q=600, t=15000), direct("TestWiringC14", q=25, t=150, shards=4)], "assumptions": ["the property sentence is restated independently in harness/ref/ref.go"]},
    "C15": {"level": "exploration", "tests": [direct("TestC15Direct", q=3000, t=300000), hist("TestC15History"), direct("TestWiringC15", q=25, t=150, shards=4)], "assumptions": COMMON_ASSUMPTIONS},
    "C16": {"level": "exploration", "tests": [det("TestC16Validation"), direct("TestC16ValidationRandom", q=20000, t=3000000), direct("TestC16Decode", q=2000, t=200000), direct("TestC16Gate", q=100, t=600, shards=6),
                                              {"name": "FuzzC16Decode", "fuzz": True, "quick": None, "thorough": {"checks": 0, "shards": 1, "timeout": 400, "fuzztime": "120s"}}],
            "assumptions": ["the start-up gate is exercised by running the real cmd/main.go binary up to the Kubernetes client set-up; what main does with the decoded options after the gate is taken on reading"]},
    "C17": {"level": "exploration", "tests": [direct("TestC17", q=3000, t=400000), hist("TestC17History", q=800, t=40000)], "assumptions": COMMON_ASSUMPTIONS},
    "C18": {"level": "fault_enumeration", "tests": [direct("TestC18", q=60, t=800), direct("TestC18Consecutive", q=300, t=30000), hist("TestC18History", q=500, t=15000)], "assumptions": COMMON_ASSUMPTIONS},
    "C19": {"level": "fault_enumeration", "tests": [direct("TestC19Direct", q=3000, t=400000), hist("TestC19History"), hist("TestC19HistoryBig", q=300, t=6000, steps=8, tsteps=10), direct("TestWiringC19", q=25, t=150, shards=4)], "assumptions": COMMON_ASSUMPTIONS},
    "C20": {"level": "fault_enumeration", "tests": [hist("TestC20"), hist("TestC20Dry", q=600, t=15000), hist("TestC20Enum", q=100, t=1500, steps=20, tsteps=25)], "assumptions": COMMON_ASSUMPTIONS},
}
