# Per-property check configuration for ./check.
# tests: list of Go test functions; per tier: number of rapid cases, shards (processes), average steps per history.

def hist(name, q=300, t=3000, shards=14, steps=30, tsteps=40, qtimeout=600, ttimeout=3000):
    return {"name": name,
            "quick": {"checks": q, "shards": 1, "steps": steps, "timeout": qtimeout},
            "thorough": {"checks": t, "shards": shards, "steps": tsteps, "timeout": ttimeout}}

def direct(name, q=2000, t=50000, shards=14, qtimeout=600, ttimeout=3000):
    return {"name": name,
            "quick": {"checks": q, "shards": 1, "timeout": qtimeout},
            "thorough": {"checks": t, "shards": shards, "timeout": ttimeout}}

COMMON_ASSUMPTIONS = [
    "simulated AWS (harness/sim/aws.go) follows the AWS API reference only as far as escalator can observe it",
    "NewController/NewClient/Builder.Build are mirrored by the verif-tagged hooks, not executed",
    "escalator is compiled with go1.26.8 (testing/synctest virtual time)",
]

CHECKS = {
    "C01": {"level": "exploration", "tests": [hist("TestC01")], "assumptions": COMMON_ASSUMPTIONS},
    "C02": {"level": "exploration", "tests": [hist("TestC02")], "assumptions": COMMON_ASSUMPTIONS},
    "C03": {"level": "exploration", "tests": [hist("TestC03")], "assumptions": COMMON_ASSUMPTIONS},
    "C04": {"level": "exploration", "tests": [hist("TestC04")], "assumptions": COMMON_ASSUMPTIONS},
}
